package main

// search-C07: constructors accept exactly the dates that exist and no chain of public stepping /
// conversion calls from a valid date yields an invalid one.
//   A. NewSolar / NewSolarFromYmd on the box month -1..14 x day -1..33 and the time box, EVERY year 1..9998.
//   B. NewLunar / NewLunarFromYmd / NewLunarTime / NewTao / NewFoto on (Y, m -12..13, d 0..31) against the image of
//      the civil days (GetLunar of every day of civil years Y-1..Y+1), sweep years.
//   C. closure: targeted stepping onto the calendar's seams for every year + random chains of 5-10 operations.

import (
	"fmt"
	"strings"

	"github.com/6tail/lunar-go/calendar"
)

func init() {
	modes["search-C07"] = searchC07
}

type c07Ck struct {
	count int
	seen  map[string]int
}

func (c *c07Ck) report(kind, input, obs, exp string) {
	c.seen[kind]++
	if c.seen[kind] <= 20 {
		viol("C07", kind, input, obs, exp)
	}
}

// independent oracle for the civil calendar (Julian up to 1582-10-04, Gregorian from 1582-10-15)
func c07Leap(y int) bool {
	if y <= 1582 {
		return y%4 == 0
	}
	return (y%4 == 0 && y%100 != 0) || y%400 == 0
}

func c07ValidYmd(y, m, d int) bool {
	if m < 1 || m > 12 || d < 1 {
		return false
	}
	dim := []int{31, 28, 31, 30, 31, 30, 31, 31, 30, 31, 30, 31}[m-1]
	if m == 2 && c07Leap(y) {
		dim = 29
	}
	if d > dim {
		return false
	}
	if y == 1582 && m == 10 && d >= 5 && d <= 14 {
		return false
	}
	return true
}

func c07ValidHms(h, mi, s int) bool {
	return h >= 0 && h <= 23 && mi >= 0 && mi <= 59 && s >= 0 && s <= 59
}

func c07ValidSolar(s *calendar.Solar) bool {
	return s != nil && s.GetYear() >= 1 && s.GetYear() <= 9999 && c07ValidYmd(s.GetYear(), s.GetMonth(), s.GetDay()) && c07ValidHms(s.GetHour(), s.GetMinute(), s.GetSecond())
}

// c07Try runs a constructor call: accepted=false when it panicked
func c07Try(f func()) (accepted bool, msg string) {
	defer func() {
		if r := recover(); r != nil {
			accepted, msg = false, fmt.Sprint(r)
		}
	}()
	f()
	return true, ""
}

// c07Jdn: day number of a valid civil date (independent of the library)
func c07Jdn(y, m, d int) int {
	a := (14 - m) / 12
	yy := y + 4800 - a
	mm := m + 12*a - 3
	if y > 1582 || (y == 1582 && (m > 10 || (m == 10 && d >= 15))) {
		return d + (153*mm+2)/5 + 365*yy + yy/4 - yy/100 + yy/400 - 32045
	}
	return d + (153*mm+2)/5 + 365*yy + yy/4 - 32083
}

const c07JdnLo = 1721424 // 0001-01-01
const c07JdnHi = 5373119 // 9998-12-31

func c07FloorDiv(a, b int) int {
	q := a / b
	if a%b != 0 && (a < 0) != (b < 0) {
		q--
	}
	return q
}

func c07Lastday(y, m int) int {
	for d := 31; d >= 28; d-- {
		if c07ValidYmd(y, m, d) {
			return d
		}
	}
	return 28
}

func searchC07() {
	ck := &c07Ck{seen: map[string]int{}}
	var nSolarAcc, nSolarRej, nLunarAcc, nLunarRej, nLeapAcc, nChains, nChainOps, nImgSkip int
	var samples []string

	// ---------------- A. NewSolar acceptance, every year ----------------
	for y := 1; y <= 9998; y++ {
		if y%shardN != shardI {
			continue
		}
		vt := randTime()
		for m := -1; m <= 14; m++ {
			for d := -1; d <= 33; d++ {
				m, d := m, d
				want := c07ValidYmd(y, m, d)
				var s *calendar.Solar
				ck.count++
				got, msg := c07Try(func() { s = calendar.NewSolar(y, m, d, vt.h, vt.mi, vt.s) })
				in := fmt.Sprintf("NewSolar(%d,%d,%d,%d,%d,%d)", y, m, d, vt.h, vt.mi, vt.s)
				if got != want {
					if got {
						ck.report("solar-accepts-invalid", in, "accepted: "+solarStr(s), "panic (no such date)")
					} else {
						ck.report("solar-rejects-valid", in, "panic: "+msg, "accepted")
					}
					continue
				}
				if got {
					nSolarAcc++
					if s.GetYear() != y || s.GetMonth() != m || s.GetDay() != d || s.GetHour() != vt.h || s.GetMinute() != vt.mi || s.GetSecond() != vt.s {
						ck.report("solar-fields", in, solarStr(s), "the arguments")
					}
				} else {
					nSolarRej++
				}
				// the date-only constructor agrees
				if (d >= 27 || d <= 1 || (y == 1582 && m == 10)) && m >= 0 && m <= 13 {
					ck.count++
					got2, _ := c07Try(func() { s = calendar.NewSolarFromYmd(y, m, d) })
					if got2 != want {
						ck.report("solar-ymd-acceptance", fmt.Sprintf("NewSolarFromYmd(%d,%d,%d)", y, m, d), fmt.Sprintf("accepted=%v", got2), fmt.Sprintf("accepted=%v", want))
					} else if got2 && (s.GetYear() != y || s.GetMonth() != m || s.GetDay() != d || s.GetHour() != 0 || s.GetMinute() != 0 || s.GetSecond() != 0) {
						ck.report("solar-fields", fmt.Sprintf("NewSolarFromYmd(%d,%d,%d)", y, m, d), solarStr(s), "the arguments at 00:00:00")
					}
				}
			}
		}
		// the time box on valid dates (one month end, one random day) and on one invalid date
		mm := 1 + rng.Intn(12)
		dates := []ymd{{y, 2, c07Lastday(y, 2)}, {y, mm, 1 + rng.Intn(c07Lastday(y, mm))}, {y, 2, 30}}
		if y == 1582 {
			dates = append(dates, ymd{y, 10, 4}, ymd{y, 10, 15}, ymd{y, 10, 10})
		}
		for _, dt := range dates {
			dateOK := c07ValidYmd(dt.y, dt.m, dt.d)
			for _, h := range []int{-1, 0, 23, 24} {
				for _, mi := range []int{-1, 0, 59, 60} {
					for _, sc := range []int{-1, 0, 59, 60} {
						h, mi, sc := h, mi, sc
						want := dateOK && c07ValidHms(h, mi, sc)
						var s *calendar.Solar
						ck.count++
						got, msg := c07Try(func() { s = calendar.NewSolar(dt.y, dt.m, dt.d, h, mi, sc) })
						if got != want {
							in := fmt.Sprintf("NewSolar(%d,%d,%d,%d,%d,%d)", dt.y, dt.m, dt.d, h, mi, sc)
							if got {
								ck.report("solar-accepts-invalid", in, "accepted: "+solarStr(s), "panic (time or date out of range)")
							} else {
								ck.report("solar-rejects-valid", in, "panic: "+msg, "accepted")
							}
						} else if got && (s.GetHour() != h || s.GetMinute() != mi || s.GetSecond() != sc || s.GetDay() != dt.d) {
							ck.report("solar-fields", fmt.Sprintf("NewSolar(%d,%d,%d,%d,%d,%d)", dt.y, dt.m, dt.d, h, mi, sc), solarStr(s), "the arguments")
						}
					}
				}
			}
		}

		// ---------------- C1. targeted closure: stepping onto the seams ----------------
		step := func(kind, in string, f func() *calendar.Solar) {
			ck.count++
			var r *calendar.Solar
			ok, msg := c07Try(func() { r = f() })
			if !ok {
				ck.report("closure-panic", in, "panic: "+msg, "a valid date")
			} else if !c07ValidSolar(r) {
				ck.report(kind, in, solarStr(r), "a valid date")
			}
		}
		// October days carried into 1582 by year / month stepping
		if y != 1582 {
			for d := 1; d <= 31; d++ {
				d := d
				s := sol(y, 10, d, vt.h, vt.mi, vt.s)
				step("closure-invalid", fmt.Sprintf("%s NextYear(%d)", solarStr(s), 1582-y), func() *calendar.Solar { return s.NextYear(1582 - y) })
				step("closure-invalid", fmt.Sprintf("%s NextMonth(%d)", solarStr(s), 12*(1582-y)), func() *calendar.Solar { return s.NextMonth(12 * (1582 - y)) })
			}
		}
		// month ends under month / year stepping
		for m := 1; m <= 12; m++ {
			last := c07Lastday(y, m)
			for _, d := range []int{last, last - 1, 29, 30} {
				if !c07ValidYmd(y, m, d) {
					continue
				}
				d, m := d, m
				s := sol(y, m, d, vt.h, vt.mi, vt.s)
				for k := -13; k <= 13; k++ {
					k := k
					if y*12+m-1+k < 12 || (y*12+m-1+k)/12 > 9998 {
						continue
					}
					step("closure-invalid", fmt.Sprintf("%s NextMonth(%d)", solarStr(s), k), func() *calendar.Solar { return s.NextMonth(k) })
				}
				for _, k := range []int{-400, -100, -4, -3, -2, -1, 1, 2, 3, 4, 100, 400, 1582 - y, 1600 - y, 1700 - y, 1500 - y} {
					k := k
					if y+k < 1 || y+k > 9998 {
						continue
					}
					step("closure-invalid", fmt.Sprintf("%s NextYear(%d)", solarStr(s), k), func() *calendar.Solar { return s.NextYear(k) })
				}
			}
		}
		// day / hour stepping over the year's ends and (in 1582) the gap
		edges := []ymd{{y, 1, 1}, {y, 12, 31}, {y, 2, c07Lastday(y, 2)}, {y, 3, 1}}
		if y == 1582 {
			edges = append(edges, ymd{y, 10, 1}, ymd{y, 10, 4}, ymd{y, 10, 15}, ymd{y, 10, 31}, ymd{y, 9, 30}, ymd{y, 11, 1})
		}
		for _, e := range edges {
			for _, t := range []hms{{0, 0, 0}, {23, 59, 59}, vt} {
				s := sol(e.y, e.m, e.d, t.h, t.mi, t.s)
				for _, n := range []int{-366, -365, -31, -30, -29, -28, -11, -10, -2, -1, 0, 1, 2, 10, 11, 28, 29, 30, 31, 365, 366} {
					n := n
					if j := c07Jdn(e.y, e.m, e.d) + n; j < c07JdnLo || j > c07JdnHi {
						continue
					}
					step("closure-invalid", fmt.Sprintf("%s NextDay(%d)", solarStr(s), n), func() *calendar.Solar { return s.NextDay(n) })
					if n >= -2 && n <= 2 {
						for _, hh := range []int{n * 24, n*24 - 1, n*24 + 1, n*24 - t.h, n*24 - t.h - 1, n*24 + 23 - t.h, n*24 + 24 - t.h} {
							hh := hh
							if j := c07Jdn(e.y, e.m, e.d) + c07FloorDiv(t.h+hh, 24); j < c07JdnLo || j > c07JdnHi {
								continue
							}
							step("closure-invalid", fmt.Sprintf("%s NextHour(%d)", solarStr(s), hh), func() *calendar.Solar { return s.NextHour(hh) })
						}
					}
				}
			}
		}
	}

	// ---------------- B. lunar / Taoist / Buddhist constructors against the image of the civil days ----------------
	type md struct{ m, d int }
	for _, Y := range sweepYears(120) {
		img := map[md]bool{}
		imgOK := true
		for cy := Y - 1; cy <= Y+1; cy++ {
			if cy < 1 || cy > 9999 {
				continue
			}
			for _, dd := range daysOfYearList(cy) {
				dd := dd
				ok, _ := c07Try(func() {
					l := sol(dd.y, dd.m, dd.d, 0, 0, 0).GetLunar()
					if l.GetYear() == Y {
						img[md{l.GetMonth(), l.GetDay()}] = true
					}
				})
				if !ok {
					imgOK = false
				}
			}
		}
		if !imgOK {
			nImgSkip++
			continue // a conversion panicked: C01/C08 report that; no oracle here
		}
		leap := 0
		c07Try(func() { leap = calendar.NewLunarYear(Y).GetLeapMonth() })
		t := randTime()
		for m := -12; m <= 13; m++ {
			for d := 0; d <= 31; d++ {
				m, d := m, d
				want := img[md{m, d}]
				in := fmt.Sprintf("(%d,%d,%d,%d,%d,%d)", Y, m, d, t.h, t.mi, t.s)
				var l *calendar.Lunar
				ck.count++
				got, msg := c07Try(func() { l = calendar.NewLunar(Y, m, d, t.h, t.mi, t.s) })
				if got != want {
					if got {
						ck.report("lunar-accepts-non-image", "NewLunar"+in, fmt.Sprintf("accepted -> civil %s", safe(func() string { return solarStr(l.GetSolar()) })), "panic: no civil day of years Y-1..Y+1 converts to this lunar date")
					} else {
						ck.report("lunar-rejects-image", "NewLunar"+in, "panic: "+msg, "accepted: some civil day converts to this lunar date")
					}
					continue
				}
				if !got {
					nLunarRej++
				} else {
					nLunarAcc++
					if m < 0 {
						nLeapAcc++
						if leap != -m {
							ck.report("lunar-leap-accepted", "NewLunar"+in, "accepted", fmt.Sprintf("rejected: GetLeapMonth of year %d is %d", Y, leap))
						}
					}
					ck.count++
					if ok, msg := c07Try(func() {
						s := l.GetSolar()
						if l.GetYear() != Y || l.GetMonth() != m || l.GetDay() != d || l.GetHour() != t.h || l.GetMinute() != t.mi || l.GetSecond() != t.s {
							panic(fmt.Sprintf("fields %d/%d/%d %d:%d:%d", l.GetYear(), l.GetMonth(), l.GetDay(), l.GetHour(), l.GetMinute(), l.GetSecond()))
						}
						if !c07ValidSolar(s) || s.GetHour() != t.h || s.GetMinute() != t.mi || s.GetSecond() != t.s {
							panic("attached civil date " + solarStr(s))
						}
						if s.GetYear() <= 9998 {
							b := s.GetLunar()
							if b.GetYear() != Y || b.GetMonth() != m || b.GetDay() != d {
								panic(fmt.Sprintf("its civil day %s converts to %d/%d/%d", solarStr(s), b.GetYear(), b.GetMonth(), b.GetDay()))
							}
						}
					}); !ok {
						ck.report("lunar-object-invalid", "NewLunar"+in, msg, "fields = arguments, valid civil date that converts back")
					}
				}
				// the other constructors of the same date accept exactly the same triples
				type ctor struct {
					name string
					f    func() (int, int, int, *calendar.Lunar)
				}
				others := []ctor{
					{fmt.Sprintf("NewTao(%d,%d,%d,%d,%d,%d)", Y+2697, m, d, t.h, t.mi, t.s), func() (int, int, int, *calendar.Lunar) {
						o := calendar.NewTao(Y+2697, m, d, t.h, t.mi, t.s)
						return o.GetYear() - 2697, o.GetMonth(), o.GetDay(), o.GetLunar()
					}},
					{fmt.Sprintf("NewFoto(%d,%d,%d,%d,%d,%d)", Y+544, m, d, t.h, t.mi, t.s), func() (int, int, int, *calendar.Lunar) {
						o := calendar.NewFoto(Y+544, m, d, t.h, t.mi, t.s)
						return o.GetYear() - 544, o.GetMonth(), o.GetDay(), o.GetLunar()
					}},
				}
				if !want || d <= 1 || d >= 29 || rng.Intn(8) == 0 {
					others = append(others,
						ctor{fmt.Sprintf("NewLunarFromYmd(%d,%d,%d)", Y, m, d), func() (int, int, int, *calendar.Lunar) {
							o := calendar.NewLunarFromYmd(Y, m, d)
							return o.GetYear(), o.GetMonth(), o.GetDay(), o
						}},
						ctor{fmt.Sprintf("NewLunarTime(%d,%d,%d,%d,%d,%d)", Y, m, d, t.h, t.mi, t.s), func() (int, int, int, *calendar.Lunar) {
							o := calendar.NewLunarTime(Y, m, d, t.h, t.mi, t.s)
							if o == nil {
								panic("nil")
							}
							return Y, m, d, nil
						}},
						ctor{fmt.Sprintf("NewTaoFromYmd(%d,%d,%d)", Y+2697, m, d), func() (int, int, int, *calendar.Lunar) {
							o := calendar.NewTaoFromYmd(Y+2697, m, d)
							return o.GetYear() - 2697, o.GetMonth(), o.GetDay(), o.GetLunar()
						}},
						ctor{fmt.Sprintf("NewFotoFromYmd(%d,%d,%d)", Y+544, m, d), func() (int, int, int, *calendar.Lunar) {
							o := calendar.NewFotoFromYmd(Y+544, m, d)
							return o.GetYear() - 544, o.GetMonth(), o.GetDay(), o.GetLunar()
						}})
				}
				for _, o := range others {
					o := o
					var ry, rm, rd int
					var rl *calendar.Lunar
					ck.count++
					got, msg := c07Try(func() { ry, rm, rd, rl = o.f() })
					if got != want {
						if got {
							ck.report("lunar-accepts-non-image", o.name, "accepted", "panic: no civil day converts to this date")
						} else {
							ck.report("lunar-rejects-image", o.name, "panic: "+msg, "accepted: some civil day converts to this date")
						}
					} else if got {
						if ry != Y || rm != m || rd != d {
							ck.report("lunar-object-invalid", o.name, fmt.Sprintf("year-offset %d month %d day %d", ry, rm, rd), fmt.Sprintf("%d %d %d", Y, m, d))
						} else if rl != nil && (rl.GetYear() != Y || rl.GetMonth() != m || rl.GetDay() != d || !c07ValidSolar(rl.GetSolar())) {
							ck.report("lunar-object-invalid", o.name, fmt.Sprintf("lunar %d/%d/%d civil %s", rl.GetYear(), rl.GetMonth(), rl.GetDay(), solarStr(rl.GetSolar())), "the lunar date given, with a valid civil date")
						}
					}
				}
			}
		}
		// a lunar constructor never builds an object with an out-of-range time of day
		if len(img) > 0 {
			var any md
			for k := range img {
				if any.d == 0 || k.m*100+k.d < any.m*100+any.d {
					any = k
				}
			}
			for _, bad := range []hms{{24, 0, 0}, {-1, 0, 0}, {0, 60, 0}, {0, -1, 0}, {0, 0, 60}, {0, 0, -1}} {
				bad := bad
				ck.count++
				var l *calendar.Lunar
				if got, _ := c07Try(func() { l = calendar.NewLunar(Y, any.m, any.d, bad.h, bad.mi, bad.s) }); got {
					ck.report("lunar-time-accepted", fmt.Sprintf("NewLunar(%d,%d,%d,%d,%d,%d)", Y, any.m, any.d, bad.h, bad.mi, bad.s), "accepted: "+safe(func() string { return solarStr(l.GetSolar()) }), "panic: time of day out of range")
				}
			}
		}
		if len(samples) < 2 && leap != 0 {
			samples = append(samples, fmt.Sprintf("lunar year %d: image has %d days, leap month %d; 26x32 triples x up to 7 constructors", Y, len(img), leap))
		}
	}

	// ---------------- C2. closure: random chains of 5-10 stepping / conversion calls ----------------
	nChain := 400
	if tier == "thorough" {
		nChain = 4000
	}
	// guards keeping every intermediate result well inside years 1..9998
	dayOK := func(s *calendar.Solar, n int) bool {
		j := c07Jdn(s.GetYear(), s.GetMonth(), s.GetDay()) + n
		return j >= c07JdnLo+800 && j <= c07JdnHi-800
	}
	monthOK := func(s *calendar.Solar, n int) bool {
		ty := c07FloorDiv(s.GetYear()*12+s.GetMonth()-1+n, 12)
		return ty >= 3 && ty <= 9996
	}
	for c := 0; c < nChain; c++ {
		// start: a random valid date, biased to the seams
		y := 3 + rng.Intn(9994)
		switch rng.Intn(6) {
		case 0:
			y = 1570 + rng.Intn(30)
		case 1:
			y = 3 + rng.Intn(300)
		}
		m := 1 + rng.Intn(12)
		d := 1 + rng.Intn(31)
		if rng.Intn(3) == 0 {
			d = c07Lastday(y, m)
		}
		for !c07ValidYmd(y, m, d) {
			d--
			if d < 1 {
				d = 15
			}
		}
		t := randTime()
		if rng.Intn(3) == 0 {
			t = dayTimes()[rng.Intn(len(dayTimes()))]
		}
		cur := sol(y, m, d, t.h, t.mi, t.s)
		trace := []string{solarStr(cur)}
		nOps := 5 + rng.Intn(6)
		nChains++
		for k := 0; k < nOps; k++ {
			small := rng.Intn(2) == 0
			pick := func(smallR, bigR int) int {
				if small {
					return rng.Intn(2*smallR+1) - smallR
				}
				return rng.Intn(2*bigR+1) - bigR
			}
			var op string
			var f func() *calendar.Solar
			var lun *calendar.Lunar
			src := cur
			switch rng.Intn(11) {
			case 0:
				n := pick(70, 400000)
				if !dayOK(src, n) {
					continue
				}
				op = fmt.Sprintf("NextDay(%d)", n)
				f = func() *calendar.Solar { return src.NextDay(n) }
			case 1:
				n := pick(14, 6000)
				if !monthOK(src, n) {
					continue
				}
				op = fmt.Sprintf("NextMonth(%d)", n)
				f = func() *calendar.Solar { return src.NextMonth(n) }
			case 2:
				n := pick(5, 800)
				if rng.Intn(8) == 0 {
					n = 1582 - src.GetYear()
				}
				if !monthOK(src, 12*n) {
					continue
				}
				op = fmt.Sprintf("NextYear(%d)", n)
				f = func() *calendar.Solar { return src.NextYear(n) }
			case 3:
				n := pick(50, 2000000)
				if !dayOK(src, c07FloorDiv(src.GetHour()+n, 24)) {
					continue
				}
				op = fmt.Sprintf("NextHour(%d)", n)
				f = func() *calendar.Solar { return src.NextHour(n) }
			case 4:
				n := pick(40, 100000)
				if !dayOK(src, n) {
					continue
				}
				op = fmt.Sprintf("Next(%d,false)", n)
				f = func() *calendar.Solar { return src.Next(n, false) }
			case 5:
				n := pick(6, 12)
				if !dayOK(src, 40*n) {
					continue
				}
				op = fmt.Sprintf("Next(%d,true)", n)
				f = func() *calendar.Solar { return src.Next(n, true) }
			case 6:
				op = "GetLunar().GetSolar()"
				f = func() *calendar.Solar { lun = src.GetLunar(); return lun.GetSolar() }
			case 7:
				n := pick(60, 300000)
				if !dayOK(src, n) {
					continue
				}
				op = fmt.Sprintf("GetLunar().Next(%d).GetSolar()", n)
				f = func() *calendar.Solar { lun = src.GetLunar().Next(n); return lun.GetSolar() }
			case 8:
				op = "NewSolarFromJulianDay(GetJulianDay())"
				f = func() *calendar.Solar { return calendar.NewSolarFromJulianDay(src.GetJulianDay()) }
			case 9:
				op = "NewLunar(fields of GetLunar()).GetSolar()"
				f = func() *calendar.Solar {
					l := src.GetLunar()
					lun = calendar.NewLunar(l.GetYear(), l.GetMonth(), l.GetDay(), l.GetHour(), l.GetMinute(), l.GetSecond())
					return lun.GetSolar()
				}
			case 10:
				op = "NewTao/NewFoto(fields of GetLunar().GetTao()/GetFoto()).GetLunar().GetSolar()"
				f = func() *calendar.Solar {
					l := src.GetLunar()
					ta := l.GetTao()
					lun = calendar.NewTao(ta.GetYear(), ta.GetMonth(), ta.GetDay(), l.GetHour(), l.GetMinute(), l.GetSecond()).GetLunar()
					fo := lun.GetFoto()
					lun = calendar.NewFoto(fo.GetYear(), fo.GetMonth(), fo.GetDay(), l.GetHour(), l.GetMinute(), l.GetSecond()).GetLunar()
					return lun.GetSolar()
				}
			}
			trace = append(trace, op)
			in := strings.Join(trace, " . ")
			nChainOps++
			ck.count++
			var r *calendar.Solar
			ok, msg := c07Try(func() { r = f() })
			if !ok {
				ck.report("closure-panic", in, "panic: "+msg, "a valid date")
				break
			}
			if !c07ValidSolar(r) {
				ck.report("closure-invalid", in, solarStr(r), "a valid civil date-time")
				break
			}
			if lun != nil {
				// the lunar object met on the way must be a date that exists: its month is in its year's table and the day within it
				l := lun
				okL, msgL := c07Try(func() {
					mo := calendar.NewLunarYear(l.GetYear()).GetMonth(l.GetMonth())
					if l.GetMonth() == 0 || mo == nil || l.GetDay() < 1 || l.GetDay() > mo.GetDayCount() || !c07ValidHms(l.GetHour(), l.GetMinute(), l.GetSecond()) {
						panic(fmt.Sprintf("lunar %d/%d/%d %d:%d:%d is not a date of the month table", l.GetYear(), l.GetMonth(), l.GetDay(), l.GetHour(), l.GetMinute(), l.GetSecond()))
					}
					if !eqSolar(l.GetSolar(), r) {
						panic("lunar object detached from its civil date")
					}
				})
				if !okL {
					ck.report("closure-invalid-lunar", in, msgL, "a lunar date that exists")
					break
				}
			}
			cur = r
		}
		if len(samples) < 3 && c == nChain-1 {
			samples = append(samples, "chain "+strings.Join(trace, " . "))
		}
	}

	fmt.Fprintf(out, "COUNT %d\n", ck.count)
	fmt.Fprintf(out, "STAT solar_accepted=%d\n", nSolarAcc)
	fmt.Fprintf(out, "STAT solar_rejected=%d\n", nSolarRej)
	fmt.Fprintf(out, "STAT lunar_accepted=%d\n", nLunarAcc)
	fmt.Fprintf(out, "STAT lunar_rejected=%d\n", nLunarRej)
	fmt.Fprintf(out, "STAT leap_days_accepted=%d\n", nLeapAcc)
	fmt.Fprintf(out, "STAT image_years_skipped=%d\n", nImgSkip)
	fmt.Fprintf(out, "STAT chains=%d\n", nChains)
	fmt.Fprintf(out, "STAT chain_ops=%d\n", nChainOps)
	for i, s := range samples {
		if i < 3 {
			fmt.Fprintf(out, "SAMPLE %s\n", s)
		}
	}
}
