package main

import (
	"container/list"
	"fmt"
	"strings"
	"time"

	"github.com/6tail/lunar-go/calendar"
)

func init() {
	modes["gen-ec"] = genEightChar
	modes["gen-bazi"] = genBaZi
}

func strs(l *list.List) string {
	var p []string
	for e := l.Front(); e != nil; e = e.Next() {
		p = append(p, fmt.Sprint(e.Value))
	}
	return strings.Join(p, ",")
}

func ecStr(e *calendar.EightChar) string {
	return strings.Join([]string{
		strings.Join([]string{e.GetYear(), e.GetMonth(), e.GetDay(), e.GetTime()}, " "),
		strings.Join([]string{e.GetYearWuXing(), e.GetMonthWuXing(), e.GetDayWuXing(), e.GetTimeWuXing()}, " "),
		strings.Join([]string{e.GetYearNaYin(), e.GetMonthNaYin(), e.GetDayNaYin(), e.GetTimeNaYin()}, " "),
		strings.Join([]string{e.GetYearShiShenGan(), e.GetMonthShiShenGan(), e.GetDayShiShenGan(), e.GetTimeShiShenGan()}, " "),
		strings.Join([]string{strs(e.GetYearShiShenZhi()), strs(e.GetMonthShiShenZhi()), strs(e.GetDayShiShenZhi()), strs(e.GetTimeShiShenZhi())}, " "),
		strings.Join([]string{strings.Join(e.GetYearHideGan(), ","), strings.Join(e.GetMonthHideGan(), ","), strings.Join(e.GetDayHideGan(), ","), strings.Join(e.GetTimeHideGan(), ",")}, " "),
		strings.Join([]string{e.GetYearDiShi(), e.GetMonthDiShi(), e.GetDayDiShi(), e.GetTimeDiShi()}, " "),
		strings.Join([]string{e.GetYearXun(), e.GetMonthXun(), e.GetDayXun(), e.GetTimeXun()}, " "),
		strings.Join([]string{e.GetYearXunKong(), e.GetMonthXunKong(), e.GetDayXunKong(), e.GetTimeXunKong()}, " "),
		strings.Join([]string{e.GetTaiYuan(), e.GetTaiXi(), e.GetMingGong(), e.GetShenGong()}, " "),
	}, "|")
}

func yunStr(y *calendar.Yun) string {
	fw := 0
	if y.IsForward() {
		fw = 1
	}
	head := fmt.Sprintf("%d %d %d %d %d %s", fw, y.GetStartYear(), y.GetStartMonth(), y.GetStartDay(), y.GetStartHour(), solarStr(y.GetStartSolar()))
	var parts []string
	for _, d := range y.GetDaYun() {
		lns := d.GetLiuNian()
		xys := d.GetXiaoYun()
		var ln []string
		for k := 0; k < len(lns) && k < 3; k++ {
			ly := lns[k].GetLiuYue()
			ln = append(ln, lns[k].GetGanZhi()+":"+xys[k].GetGanZhi()+":"+ly[0].GetGanZhi()+":"+ly[11].GetGanZhi())
		}
		parts = append(parts, fmt.Sprintf("%d %d %d %d %d %s %s", d.GetStartYear(), d.GetEndYear(), d.GetStartAge(), d.GetEndAge(), len(lns), dash(d.GetGanZhi()), strings.Join(ln, ",")))
	}
	return head + "|" + strings.Join(parts, "|")
}

func genEightChar() {
	for _, y := range sweepYears(20) {
		days := daysOfYearList(y)
		for i, dd := range days {
			y, m, d := dd.y, dd.m, dd.d
			l0 := sol(y, m, d, 0, 0, 0).GetLunar()
			// a third of the days, but always the days whose lunar year leads the civil year (a handful in years 15 and 18)
			if tier != "thorough" && i%3 != rng.Intn(3) && l0.GetYear() <= y {
				continue
			}
			for _, t := range timesFor(l0, y, m, d, 1) {
				t := t
				for _, sect := range []int{1, 2} {
					sect := sect
					emit("ec", fmt.Sprintf("%d %d %d %d %d %d %d", y, m, d, t.h, t.mi, t.s, sect), safe(func() string {
						e := sol(y, m, d, t.h, t.mi, t.s).GetLunar().GetEightChar()
						e.SetSect(sect)
						return ecStr(e)
					}))
				}
				if y >= 2 && y <= 9800 {
					gender := rng.Intn(2)
					sect := 1 + rng.Intn(2)
					emit("yun", fmt.Sprintf("%d %d %d %d %d %d %d %d", y, m, d, t.h, t.mi, t.s, gender, sect), safe(func() string {
						return yunStr(sol(y, m, d, t.h, t.mi, t.s).GetLunar().GetEightChar().GetYunBySect(gender, sect))
					}))
					// the same birth built through the lunar-date constructor: every fortune value must be the same
					// (the object must carry the civil year's term table whatever the construction path)
					if gender == 1 {
						emit("yun", fmt.Sprintf("%d %d %d %d %d %d %d %d", y, m, d, t.h, t.mi, t.s, gender, sect), safe(func() string {
							l := sol(y, m, d, t.h, t.mi, t.s).GetLunar()
							return yunStr(calendar.NewLunar(l.GetYear(), l.GetMonth(), l.GetDay(), t.h, t.mi, t.s).GetEightChar().GetYunBySect(gender, sect))
						}))
					}
				}
			}
		}
	}
}

func genBaZi() {
	endYear := time.Now().Local().Year()
	bases := []int{1900, 1, 1600, 1984}
	n := 400
	if tier == "thorough" {
		n = 6000
	}
	one := func(s *calendar.Solar, sect, base int) {
		l := s.GetLunar()
		e := l.GetEightChar()
		e.SetSect(sect)
		yg, mg, dg, tg := e.GetYear(), e.GetMonth(), e.GetDay(), e.GetTime()
		emit("bazi", fmt.Sprintf("%d %d %d %s %s %s %s", sect, base, endYear, yg, mg, dg, tg), safe(func() string {
			r := calendar.ListSolarFromBaZiBySectAndBaseYear(yg, mg, dg, tg, sect, base)
			if r.Len() == 0 {
				return "-"
			}
			var p []string
			for x := r.Front(); x != nil; x = x.Next() {
				q := x.Value.(*calendar.Solar)
				p = append(p, fmt.Sprintf("%d-%d-%d-%d-%d-%d", q.GetYear(), q.GetMonth(), q.GetDay(), q.GetHour(), q.GetMinute(), q.GetSecond()))
			}
			return strings.Join(p, ",")
		}))
	}
	for i := 0; i < n; i++ {
		if i%shardN != shardI {
			rng.Intn(2) // keep streams roughly aligned
		}
		base := bases[rng.Intn(len(bases))]
		lo := base
		if lo < 1 {
			lo = 1
		}
		y := lo + rng.Intn(endYear-lo+1)
		days := daysOfYearList(y)
		dd := days[rng.Intn(len(days))]
		l0 := sol(dd.y, dd.m, dd.d, 0, 0, 0).GetLunar()
		ts := timesFor(l0, dd.y, dd.m, dd.d, 2)
		t := ts[rng.Intn(len(ts))]
		one(sol(dd.y, dd.m, dd.d, t.h, t.mi, t.s), 1+rng.Intn(2), base)
	}
	// Jie-instant slots 1900..now (directed)
	for y := 1900 + shardI; y <= endYear; y += shardN {
		l := sol(y, 6, 1, 0, 0, 0).GetLunar()
		for i, name := range calendar.JIE_QI_IN_USE {
			if i%2 != 0 || i < 2 || i > 24 {
				continue
			}
			st := l.GetJieQiTable()[name]
			for _, sect := range []int{1, 2} {
				one(st, sect, 1900)
				one(sol(st.GetYear(), st.GetMonth(), st.GetDay(), st.GetHour(), 0, 0), sect, 1900)
				one(sol(st.GetYear(), st.GetMonth(), st.GetDay(), 23, 30, 0), sect, 1900)
				one(sol(st.GetYear(), st.GetMonth(), st.GetDay(), 0, 30, 0), sect, 1900)
			}
		}
	}
}
