package main

// search-C03: solar-term table structure, adjacent-year agreement, longitude roots, prev/next/current term queries.
//
// This file also hosts the helpers shared by search_c05.go, search_c13.go and search_c16.go (prefix c03x):
// an independent civil-day <-> Julian Day Number conversion, the loader of the per-year 31-entry term table
// and the merged term list around a year.

import (
	"fmt"
	"math"
	"sort"

	"github.com/6tail/lunar-go/ShouXingUtil"
	"github.com/6tail/lunar-go/calendar"
)

func init() {
	modes["search-C03"] = searchC03
}

// the 24-name cycle starting at the winter solstice (own copy, not the library's)
var c03xCycle = []string{"冬至", "小寒", "大寒", "立春", "雨水", "惊蛰", "春分", "清明", "谷雨", "立夏", "小满", "芒种", "夏至", "小暑", "大暑", "立秋", "处暑", "白露", "秋分", "寒露", "霜降", "立冬", "小雪", "大雪"}

// the canonical keys of the 31-entry table (own copy of JIE_QI_IN_USE)
var c03xKeys = []string{"DA_XUE", "冬至", "小寒", "大寒", "立春", "雨水", "惊蛰", "春分", "清明", "谷雨", "立夏", "小满", "芒种", "夏至", "小暑", "大暑", "立秋", "处暑", "白露", "秋分", "寒露", "霜降", "立冬", "小雪", "大雪", "DONG_ZHI", "XIAO_HAN", "DA_HAN", "LI_CHUN", "YU_SHUI", "JING_ZHE"}

// table positions of some terms (entries of civil year y)
const (
	c03xIdxDongZhiPrev = 1  // winter solstice of December y-1
	c03xIdxLiChun      = 4  // Lichun of February y
	c03xIdxQingMing    = 8  // Qingming of April y
	c03xIdxXiaZhi      = 13 // summer solstice of June y
	c03xIdxLiQiu       = 16 // Liqiu of August y
	c03xIdxDongZhi     = 25 // winter solstice of December y
)

// c03xJdn: Julian Day Number of a civil day (Julian calendar up to 1582-10-04, Gregorian from 1582-10-15)
func c03xJdn(y, m, d int) int {
	a := (14 - m) / 12
	yy := y + 4800 - a
	mm := m + 12*a - 3
	if y > 1582 || (y == 1582 && (m > 10 || (m == 10 && d >= 15))) {
		return d + (153*mm+2)/5 + 365*yy + yy/4 - yy/100 + yy/400 - 32045
	}
	return d + (153*mm+2)/5 + 365*yy + yy/4 - 32083
}

// c03xFromJdn: inverse of c03xJdn
func c03xFromJdn(j int) (int, int, int) {
	var b, c int
	if j >= 2299161 {
		a := j + 32044
		b = (4*a + 3) / 146097
		c = a - 146097*b/4
	} else {
		c = j + 32082
	}
	d := (4*c + 3) / 1461
	e := c - 1461*d/4
	m := (5*e + 2) / 153
	return 100*b + d - 4800 + m/10, m + 3 - 12*(m/10), e - (153*m+2)/5 + 1
}

func c03xSelfTest() {
	for _, t := range [][4]int{{2000, 1, 1, 2451545}, {1582, 10, 15, 2299161}, {1582, 10, 4, 2299160}, {1, 1, 1, 1721424}, {9998, 12, 31, 5373119}, {1900, 3, 1, 2415080}, {4, 2, 29, 1722578}} {
		if c03xJdn(t[0], t[1], t[2]) != t[3] {
			fatal(fmt.Sprintf("c03xJdn self-test failed for %v: %d", t, c03xJdn(t[0], t[1], t[2])))
		}
		if y, m, d := c03xFromJdn(t[3]); y != t[0] || m != t[1] || d != t[2] {
			fatal(fmt.Sprintf("c03xFromJdn self-test failed for %v: %d %d %d", t, y, m, d))
		}
	}
}

// a moment of civil time
type c03xMoment struct {
	y, m, d, h, mi, s int
	jdn               int
	sec               int64 // jdn*86400 + second of day
}

func c03xMomentOf(y, m, d, h, mi, s int) c03xMoment {
	j := c03xJdn(y, m, d)
	return c03xMoment{y, m, d, h, mi, s, j, int64(j)*86400 + int64(h*3600+mi*60+s)}
}

func c03xMomentOfSec(sec int64) c03xMoment {
	j := int(sec / 86400)
	sod := int(sec % 86400)
	y, m, d := c03xFromJdn(j)
	return c03xMoment{y, m, d, sod / 3600, sod / 60 % 60, sod % 60, j, sec}
}

func c03xMomentOfSolar(s *calendar.Solar) c03xMoment {
	return c03xMomentOf(s.GetYear(), s.GetMonth(), s.GetDay(), s.GetHour(), s.GetMinute(), s.GetSecond())
}

func (t c03xMoment) String() string {
	return fmt.Sprintf("%04d-%02d-%02d %02d:%02d:%02d", t.y, t.m, t.d, t.h, t.mi, t.s)
}

func (t c03xMoment) Ymd() string { return fmt.Sprintf("%04d-%02d-%02d", t.y, t.m, t.d) }

func (t c03xMoment) lunar() *calendar.Lunar { return sol(t.y, t.m, t.d, t.h, t.mi, t.s).GetLunar() }

// one entry of a term table
type c03xTerm struct {
	idx  int    // position in the 31-entry table it was read from
	cyc  int    // position in the 24-name cycle (winter solstice = 0); odd = Jie, even = Qi
	name string // cycle name
	key  string // key observed in the table
	at   c03xMoment
}

// c03xLoadTable reads the 31-entry table through a Lunar of civil year y. ok=false when it cannot be read
// (panic, missing key, wrong length); msg then says why.
func c03xLoadTable(y int) (tab []c03xTerm, ok bool, msg string) {
	defer func() {
		if r := recover(); r != nil {
			tab, ok, msg = nil, false, fmt.Sprintf("panic: %v", r)
		}
	}()
	l := sol(y, 6, 1, 0, 0, 0).GetLunar()
	lst := l.GetJieQiList()
	tb := l.GetJieQiTable()
	if lst == nil || tb == nil {
		return nil, false, "nil table"
	}
	i := 0
	for e := lst.Front(); e != nil; e = e.Next() {
		k, isStr := e.Value.(string)
		if !isStr {
			return nil, false, "non-string key"
		}
		s := tb[k]
		if s == nil {
			return nil, false, "key without instant: " + k
		}
		tab = append(tab, c03xTerm{idx: i, cyc: (i + 23) % 24, name: c03xCycle[(i+23)%24], key: k, at: c03xMomentOfSolar(s)})
		i++
	}
	return tab, true, ""
}

// c03xAround: the chronological list of terms around civil year y, assembled from the tables of y-1, y, y+1
// (whichever are inside 1..9998): every term from the Daxue of December y-2 to the Jingzhe of March y+2.
type c03xAround struct {
	y          int
	prev, next []c03xTerm // tables of y-1 / y+1 (nil outside the supported range or unreadable)
	cur        []c03xTerm
	all        []c03xTerm
}

func c03xLoadAround(y int) (*c03xAround, string) {
	a := &c03xAround{y: y}
	var ok bool
	var msg string
	if y > 1 {
		if a.prev, ok, msg = c03xLoadTable(y - 1); !ok || len(a.prev) != 31 {
			a.prev = nil
		}
	}
	if y < 9998 {
		if a.next, ok, msg = c03xLoadTable(y + 1); !ok || len(a.next) != 31 {
			a.next = nil
		}
	}
	// load the year itself last so that the library's year cache is left on y
	if a.cur, ok, msg = c03xLoadTable(y); !ok {
		return nil, msg
	}
	if len(a.cur) != 31 {
		return a, ""
	}
	if a.prev != nil {
		a.all = append(a.all, a.prev[0:25]...)
		a.all = append(a.all, a.cur[1:25]...)
	} else {
		a.all = append(a.all, a.cur[0:25]...)
	}
	if a.next != nil {
		a.all = append(a.all, a.next[1:31]...)
	} else {
		a.all = append(a.all, a.cur[25:31]...)
	}
	return a, ""
}

// set: 0 any term, 1 Jie only, 2 Qi only
func c03xInSet(t *c03xTerm, set int) bool {
	return set == 0 || (set == 1 && t.cyc%2 == 1) || (set == 2 && t.cyc%2 == 0)
}

// prevTerm: latest term at or before the moment (wholeDay: comparing civil days)
func (a *c03xAround) prevTerm(t c03xMoment, set int, wholeDay bool) *c03xTerm {
	var r *c03xTerm
	for i := range a.all {
		e := &a.all[i]
		if !c03xInSet(e, set) {
			continue
		}
		le := e.at.sec <= t.sec
		if wholeDay {
			le = e.at.jdn <= t.jdn
		}
		if le && (r == nil || e.at.sec > r.at.sec) {
			r = e
		}
	}
	return r
}

// nextTerm: earliest term strictly after the moment (wholeDay: comparing civil days)
func (a *c03xAround) nextTerm(t c03xMoment, set int, wholeDay bool) *c03xTerm {
	var r *c03xTerm
	for i := range a.all {
		e := &a.all[i]
		if !c03xInSet(e, set) {
			continue
		}
		gt := e.at.sec > t.sec
		if wholeDay {
			gt = e.at.jdn > t.jdn
		}
		if gt && (r == nil || e.at.sec < r.at.sec) {
			r = e
		}
	}
	return r
}

// termOnDay: the term whose instant falls on that civil day (nil if none)
func (a *c03xAround) termOnDay(jdn int) *c03xTerm {
	for i := range a.all {
		if a.all[i].at.jdn == jdn {
			return &a.all[i]
		}
	}
	return nil
}

// c03xYearMoments: the query moments of civil year y: for every day 00:00:00 and 23:59:59, the extra times, plus perDay
// boundary/random times; every term instant of the year with the seconds on either side.
func c03xYearMoments(a *c03xAround, perDay int, extra ...hms) []c03xMoment {
	y := a.y
	var ms []c03xMoment
	all := dayTimes()
	for _, dd := range daysOfYearList(y) {
		ms = append(ms, c03xMomentOf(y, dd.m, dd.d, 0, 0, 0), c03xMomentOf(y, dd.m, dd.d, 23, 59, 59))
		for _, t := range extra {
			ms = append(ms, c03xMomentOf(y, dd.m, dd.d, t.h, t.mi, t.s))
		}
		for i := 0; i < perDay; i++ {
			t := all[rng.Intn(len(all))]
			if i == 0 {
				t = randTime()
			}
			ms = append(ms, c03xMomentOf(y, dd.m, dd.d, t.h, t.mi, t.s))
		}
	}
	for _, e := range a.all {
		for _, ds := range []int64{-1, 0, 1} {
			t := c03xMomentOfSec(e.at.sec + ds)
			if t.y == y {
				ms = append(ms, t)
			}
		}
	}
	sort.Slice(ms, func(i, j int) bool { return ms[i].sec < ms[j].sec })
	// drop duplicates
	var r []c03xMoment
	for i, t := range ms {
		if i == 0 || t.sec != ms[i-1].sec {
			r = append(r, t)
		}
	}
	return r
}

// c03xChecker: counting / capped violation reporter shared by the searches
type c03xChecker struct {
	prop   string
	count  int
	seen   map[string]int
	failed map[string]bool
}

func c03xNewChecker(prop string) *c03xChecker {
	return &c03xChecker{prop: prop, seen: map[string]int{}, failed: map[string]bool{}}
}

// has: was a violation of this kind already found for this input
func (c *c03xChecker) has(kind, input string) bool { return c.failed[kind+"\x00"+input] }

func (c *c03xChecker) report(kind, input, obs, exp string) {
	if c.has(kind, input) {
		return
	}
	c.failed[kind+"\x00"+input] = true
	c.seen[kind]++
	if c.seen[kind] <= 20 {
		viol(c.prop, kind, input, obs, exp)
	}
}

// chk evaluates one clause; a panic inside is a violation
func (c *c03xChecker) chk(kind string, input string, f func() (bool, string, string)) {
	c.count++
	defer func() {
		if r := recover(); r != nil {
			c.report(kind, input, fmt.Sprintf("panic: %v", r), "no panic")
		}
	}()
	if ok, obs, exp := f(); !ok {
		c.report(kind, input, obs, exp)
	}
}

func (c *c03xChecker) finish() {
	fmt.Fprintf(out, "COUNT %d\n", c.count)
	var ks []string
	for k := range c.seen {
		ks = append(ks, k)
	}
	sort.Strings(ks)
	for _, k := range ks {
		fmt.Fprintf(out, "STAT viol_%s=%d\n", k, c.seen[k])
	}
}

func c03xJieQiStr(j *calendar.JieQi) string {
	if j == nil {
		return "nil"
	}
	s := j.GetSolar()
	if s == nil {
		return j.GetName() + "@nil"
	}
	return j.GetName() + "@" + c03xMomentOfSolar(s).String()
}

// c03xLonResidual: the library's own apparent solar longitude at the Beijing-time Julian Day jd, minus k*15 degrees,
// wrapped to (-pi, pi]. Inverts QiAccurate: bj = t - DtT(t) + 1/3 with t = TD days from J2000.
func c03xLonResidual(jd float64, k int) float64 {
	b := jd - 2451545
	t := b - ShouXingUtil.ONE_THIRD
	for i := 0; i < 6; i++ {
		t = b - ShouXingUtil.ONE_THIRD + ShouXingUtil.DtT(t)
	}
	l := ShouXingUtil.VerifSaLon(t/36525, -1)
	return math.Remainder(l-float64(k)*math.Pi/12, 2*math.Pi)
}

// threshold for the longitude clause (radians). Measured on the unchanged tree over all 93000 table entries of years
// 1..3000: worst residual 1.27e-7 rad (year 2875 entry 19) for the reported instants, which are rounded to the second
// (the sun moves ~2.0e-7 rad/s, so half a second of rounding is ~1.0e-7); 2.3e-8 rad for the unrounded Julian Days.
// 1e-6 rad is ~8x the worst case and corresponds to an instant off by ~5 s.
const c03LonTol = 1e-6

func searchC03() {
	c03xSelfTest()
	c := c03xNewChecker("C03")
	nRandom := 30
	var lonWorstSolar, lonWorstRaw float64
	nQueries, nTermMoments, nLon := 0, 0, 0
	samples := 0
	for _, y := range sweepYears(nRandom) {
		ys := fmt.Sprint(y)
		a, msg := c03xLoadAround(y)
		if a == nil {
			c.count++
			c.report("table-unreadable", ys, msg, "31-entry table")
			continue
		}
		tab := a.cur
		// ---- structure of the table
		okShape := true
		c.chk("table-shape", ys, func() (bool, string, string) {
			if len(tab) != 31 {
				okShape = false
				return false, fmt.Sprintf("%d entries", len(tab)), "31 entries"
			}
			l := sol(y, 1, 1, 0, 0, 0).GetLunar()
			if len(l.GetJieQiTable()) != 31 || l.GetJieQiList().Len() != 31 {
				return false, fmt.Sprintf("table %d list %d", len(l.GetJieQiTable()), l.GetJieQiList().Len()), "31 / 31"
			}
			for i, e := range tab {
				if e.key != c03xKeys[i] {
					return false, fmt.Sprintf("entry %d is %s", i, e.key), c03xKeys[i]
				}
			}
			return true, "", ""
		})
		if !okShape {
			continue
		}
		for i := 1; i < 31; i++ {
			i := i
			c.chk("table-order-gap", fmt.Sprintf("%d entry %d", y, i), func() (bool, string, string) {
				gap := tab[i].at.sec - tab[i-1].at.sec
				ok := gap > 0 && float64(gap) >= 14.6*86400 && float64(gap) <= 15.8*86400
				return ok, fmt.Sprintf("%s -> %s (%.4f days)", tab[i-1].at, tab[i].at, float64(gap)/86400), "strictly increasing, 14.6..15.8 days apart"
			})
		}
		// entries belong to the expected stretch: entry 0 in December y-1 ... entry 30 in March y+1 (implied by the gaps once
		// one entry is pinned; pin the summer solstice to June of y)
		c.chk("table-anchor", ys, func() (bool, string, string) {
			e := tab[c03xIdxXiaZhi]
			return e.at.y == y && e.at.m == 6, e.at.String(), fmt.Sprintf("summer solstice in %04d-06", y)
		})
		// ---- adjacent years
		if a.next != nil {
			for j := 0; j <= 6; j++ {
				j := j
				c.chk("adjacent-years", fmt.Sprintf("%d entry %d", y, 24+j), func() (bool, string, string) {
					p, q := tab[24+j], a.next[j]
					return p.at.sec == q.at.sec, fmt.Sprintf("%s in %d, %s in %d", p.at, y, q.at, y+1), "same instant"
				})
			}
		}
		if a.prev != nil {
			for j := 0; j <= 6; j++ {
				j := j
				c.chk("adjacent-years", fmt.Sprintf("%d entry %d", y-1, 24+j), func() (bool, string, string) {
					p, q := a.prev[24+j], tab[j]
					return p.at.sec == q.at.sec, fmt.Sprintf("%s in %d, %s in %d", p.at, y-1, q.at, y), "same instant"
				})
			}
		}
		// ---- longitude clause
		if y <= 3000 {
			var raw []float64
			func() {
				defer func() { recover() }()
				raw = calendar.NewLunarYear(y).GetJieQiJulianDays()
			}()
			for i := range tab {
				i := i
				k := (17 + i) % 24 // Daxue = 255 degrees = 17 * 15; winter solstice = 270 = 18 * 15
				c.chk("longitude-root", fmt.Sprintf("%d entry %d", y, i), func() (bool, string, string) {
					nLon++
					t := tab[i].at
					jd := float64(t.jdn) - 0.5 + float64(t.sec-int64(t.jdn)*86400)/86400
					r := math.Abs(c03xLonResidual(jd, k))
					if r > lonWorstSolar {
						lonWorstSolar = r
					}
					return r <= c03LonTol, fmt.Sprintf("%s: longitude off %d deg by %.3e rad", t, k*15, r), fmt.Sprintf("within %.0e rad", c03LonTol)
				})
				if len(raw) == 31 {
					c.chk("longitude-root-jd", fmt.Sprintf("%d entry %d", y, i), func() (bool, string, string) {
						r := math.Abs(c03xLonResidual(raw[i], k))
						if r > lonWorstRaw {
							lonWorstRaw = r
						}
						// the Julian Day list and the table must be the same instants (to the rounding second)
						t := tab[i].at
						jd := float64(t.jdn) - 0.5 + float64(t.sec-int64(t.jdn)*86400)/86400
						if math.Abs(jd-raw[i]) > 0.51/86400 {
							return false, fmt.Sprintf("GetJieQiJulianDays %.6f vs table %s", raw[i], t), "same instant"
						}
						return r <= c03LonTol, fmt.Sprintf("jd %.6f: longitude off %d deg by %.3e rad", raw[i], k*15, r), fmt.Sprintf("within %.0e rad", c03LonTol)
					})
				}
			}
		}
		// ---- queries
		for _, t := range c03xYearMoments(a, 1) {
			t := t
			in := t.String()
			on := a.termOnDay(t.jdn)
			isTermMoment := on != nil && on.at.sec >= t.sec-1 && on.at.sec <= t.sec+1
			if isTermMoment {
				nTermMoments++
			}
			var l *calendar.Lunar
			c.chk("lunar-of-moment", in, func() (bool, string, string) {
				l = t.lunar()
				return l != nil, "nil", "a lunar object"
			})
			if l == nil {
				continue
			}
			if samples < 3 && isTermMoment && rng.Intn(40) == 0 {
				samples++
				fmt.Fprintf(out, "SAMPLE %s prev=%s next=%s\n", in, c03xJieQiStr(l.GetPrevJieQi()), c03xJieQiStr(l.GetNextJieQi()))
			}
			for _, wd := range []bool{false, true} {
				wd := wd
				for set := 0; set <= 2; set++ {
					set := set
					for _, fwd := range []bool{false, true} {
						fwd := fwd
						kind := "prev" + []string{"-jieqi", "-jie", "-qi"}[set] + "-not-latest-at-or-before"
						if fwd {
							kind = "next" + []string{"-jieqi", "-jie", "-qi"}[set] + "-not-earliest-after"
						}
						if wd {
							kind += "-wholeday"
						}
						nQueries++
						c.chk(kind, in, func() (bool, string, string) {
							var got *calendar.JieQi
							switch {
							case set == 0 && !fwd:
								got = l.GetPrevJieQiByWholeDay(wd)
							case set == 0 && fwd:
								got = l.GetNextJieQiByWholeDay(wd)
							case set == 1 && !fwd:
								got = l.GetPrevJieByWholeDay(wd)
							case set == 1 && fwd:
								got = l.GetNextJieByWholeDay(wd)
							case set == 2 && !fwd:
								got = l.GetPrevQiByWholeDay(wd)
							default:
								got = l.GetNextQiByWholeDay(wd)
							}
							var exp *c03xTerm
							if fwd {
								exp = a.nextTerm(t, set, wd)
							} else {
								exp = a.prevTerm(t, set, wd)
							}
							if exp == nil {
								return true, "", "" // cannot happen inside the year: the merged list spans it
							}
							es := exp.name + "@" + exp.at.String()
							if got == nil || got.GetSolar() == nil {
								return false, c03xJieQiStr(got), es
							}
							if got.GetName() != exp.name || c03xMomentOfSolar(got.GetSolar()).sec != exp.at.sec {
								return false, c03xJieQiStr(got), es
							}
							// Jie / Qi flags consistent with the term's place in the cycle
							if got.IsJie() != (exp.cyc%2 == 1) || got.IsQi() != (exp.cyc%2 == 0) {
								return false, fmt.Sprintf("%s isJie=%v isQi=%v", got.GetName(), got.IsJie(), got.IsQi()), fmt.Sprintf("isJie=%v isQi=%v", exp.cyc%2 == 1, exp.cyc%2 == 0)
							}
							return true, "", ""
						})
					}
				}
				if !wd && (isTermMoment || rng.Intn(6) == 0) {
					// the plain getters are the non-whole-day variants
					c.chk("plain-getters", in, func() (bool, string, string) {
						x := c03xJieQiStr(l.GetPrevJieQi()) + "|" + c03xJieQiStr(l.GetNextJieQi()) + "|" + c03xJieQiStr(l.GetPrevJie()) + "|" + c03xJieQiStr(l.GetNextJie()) + "|" + c03xJieQiStr(l.GetPrevQi()) + "|" + c03xJieQiStr(l.GetNextQi())
						w := c03xJieQiStr(l.GetPrevJieQiByWholeDay(false)) + "|" + c03xJieQiStr(l.GetNextJieQiByWholeDay(false)) + "|" + c03xJieQiStr(l.GetPrevJieByWholeDay(false)) + "|" + c03xJieQiStr(l.GetNextJieByWholeDay(false)) + "|" + c03xJieQiStr(l.GetPrevQiByWholeDay(false)) + "|" + c03xJieQiStr(l.GetNextQiByWholeDay(false))
						return x == w, x, w
					})
				}
			}
			// the term named for the day
			c.chk("day-term-name", in, func() (bool, string, string) {
				eAll, eJie, eQi := "", "", ""
				if on != nil {
					eAll = on.name
					if on.cyc%2 == 1 {
						eJie = on.name
					} else {
						eQi = on.name
					}
				}
				obs := dash(l.GetJieQi()) + "|" + dash(l.GetJie()) + "|" + dash(l.GetQi())
				exp := dash(eAll) + "|" + dash(eJie) + "|" + dash(eQi)
				if obs != exp {
					return false, obs, exp
				}
				cur := l.GetCurrentJieQi()
				if on == nil {
					return cur == nil && l.GetCurrentJie() == nil && l.GetCurrentQi() == nil, "current " + c03xJieQiStr(cur), "nil"
				}
				if cur == nil || cur.GetName() != on.name || cur.IsJie() != (on.cyc%2 == 1) || cur.IsQi() != (on.cyc%2 == 0) {
					return false, "current " + c03xJieQiStr(cur), on.name
				}
				cj, cq := l.GetCurrentJie(), l.GetCurrentQi()
				if on.cyc%2 == 1 {
					return cj != nil && cj.GetName() == on.name && cj.IsJie() && !cj.IsQi() && cq == nil, "currentJie " + c03xJieQiStr(cj) + " currentQi " + c03xJieQiStr(cq), on.name + " / nil"
				}
				return cq != nil && cq.GetName() == on.name && cq.IsQi() && !cq.IsJie() && cj == nil, "currentJie " + c03xJieQiStr(cj) + " currentQi " + c03xJieQiStr(cq), "nil / " + on.name
			})
		}
	}
	// JieQi.IsJie / IsQi for every name of the cycle
	for i, n := range c03xCycle {
		i, n := i, n
		c.chk("isjie-isqi", n, func() (bool, string, string) {
			j := calendar.NewJieQi(n, sol(2000, 1, 1, 0, 0, 0))
			return j.IsJie() == (i%2 == 1) && j.IsQi() == (i%2 == 0), fmt.Sprintf("isJie=%v isQi=%v", j.IsJie(), j.IsQi()), fmt.Sprintf("isJie=%v isQi=%v", i%2 == 1, i%2 == 0)
		})
	}
	c.finish()
	fmt.Fprintf(out, "STAT queries=%d\n", nQueries)
	fmt.Fprintf(out, "STAT term_moments=%d\n", nTermMoments)
	fmt.Fprintf(out, "STAT lon_checked=%d\n", nLon)
	fmt.Fprintf(out, "STAT lon_worst_table_e12=%d\n", int64(lonWorstSolar*1e12))
	fmt.Fprintf(out, "STAT lon_worst_juliandays_e12=%d\n", int64(lonWorstRaw*1e12))
}
