package main

import (
	"container/list"
	"fmt"
	"sort"
	"strings"

	"github.com/6tail/lunar-go/SolarUtil"
)

func init() {
	modes["search-C20"] = searchC20
}

// ---- independent civil calendar of the harness (Julian before 1582-10-15, Gregorian from then on) ----

func c20Jdn(y, m, d int) int {
	a := (14 - m) / 12
	yy := y + 4800 - a
	mm := m + 12*a - 3
	if y > 1582 || (y == 1582 && (m > 10 || (m == 10 && d >= 15))) {
		return d + (153*mm+2)/5 + 365*yy + yy/4 - yy/100 + yy/400 - 32045
	}
	return d + (153*mm+2)/5 + 365*yy + yy/4 - 32083
}

func c20FromJdn(j int) (int, int, int) {
	f := j + 1401
	if j >= 2299161 {
		f += (((4*j+274277)/146097)*3)/4 - 38
	}
	e := 4*f + 3
	g := (e % 1461) / 4
	h := 5*g + 2
	d := (h%153)/5 + 1
	m := (h/153+2)%12 + 1
	y := e/1461 - 4716 + (12+2-m)/12
	return y, m, d
}

// 0 = Sunday .. 6 = Saturday
func c20Wd(j int) int { return (j + 1) % 7 }

// the conventional first days of the twelve signs, in zodiac order
var c20Signs = []struct {
	m, d int
	name string
}{
	{3, 21, "白羊"}, {4, 20, "金牛"}, {5, 21, "双子"}, {6, 22, "巨蟹"}, {7, 23, "狮子"}, {8, 23, "处女"},
	{9, 23, "天秤"}, {10, 24, "天蝎"}, {11, 23, "射手"}, {12, 22, "摩羯"}, {1, 20, "水瓶"}, {2, 19, "双鱼"},
}

// sign of month-day by the conventional starts: the sign whose start is the latest one not after (m, d),
// the year being read as a cycle
func c20Sign(m, d int) string {
	best := -1
	bestKey := -1
	md := m*100 + d
	for i, s := range c20Signs {
		k := s.m*100 + s.d
		if k <= md && k > bestKey {
			best, bestKey = i, k
		}
	}
	if best < 0 { // before the first start of the calendar year: the sign that began in December
		for i, s := range c20Signs {
			k := s.m*100 + s.d
			if k > bestKey {
				best, bestKey = i, k
			}
		}
	}
	return c20Signs[best].name
}

func c20Strs(l *list.List) []string {
	var p []string
	if l == nil {
		return p
	}
	for e := l.Front(); e != nil; e = e.Next() {
		p = append(p, fmt.Sprint(e.Value))
	}
	return p
}

func c20J(p []string) string {
	if len(p) == 0 {
		return "-"
	}
	return strings.Join(p, ",")
}

// multiset difference a - b
func c20Minus(a, b []string) []string {
	have := map[string]int{}
	for _, x := range b {
		have[x]++
	}
	var r []string
	for _, x := range a {
		if have[x] > 0 {
			have[x]--
		} else {
			r = append(r, x)
		}
	}
	return r
}

func searchC20() {
	count := 0
	seen := map[string]bool{}
	perKind := map[string]int{}
	chk := func(kind string, input string, f func() (bool, string, string)) {
		count++
		rep := func(obs, exp string) {
			k := kind + "\x00" + input
			if seen[k] {
				return
			}
			seen[k] = true
			perKind[kind]++
			if perKind[kind] <= 20 {
				viol("C20", kind, input, obs, exp)
			}
		}
		defer func() {
			if r := recover(); r != nil {
				rep(fmt.Sprintf("panic: %v", r), "no panic")
			}
		}()
		if ok, obs, exp := f(); !ok {
			rep(obs, exp)
		}
	}

	// ---------- zodiac: the 366 month-day pairs (in a leap year), partition and order ----------
	if shardI == 0 {
		chk("sign-table", "XINGZUO", func() (bool, string, string) {
			var exp []string
			for _, s := range c20Signs {
				exp = append(exp, s.name)
			}
			return c20J(SolarUtil.XINGZUO) == c20J(exp), c20J(SolarUtil.XINGZUO), c20J(exp)
		})
		inTable := func(s string) int {
			n := 0
			for _, x := range SolarUtil.XINGZUO {
				if x == s {
					n++
				}
			}
			return n
		}
		// walk the year cyclically from 3-21: runs are contiguous, start on the conventional days, follow in order
		j0 := c20Jdn(2000, 3, 21)
		run := 0
		prevSign := ""
		var starts []string
		pairs := 0
		for i := 0; i < 365; i++ {
			y, m, d := c20FromJdn(j0 + i) // 2000-03-21 .. 2001-03-20: 365 month-day pairs, 2-29 follows below
			in := fmt.Sprintf("%d-%d", m, d)
			pairs++
			var got string
			chk("sign-of-day", in, func() (bool, string, string) {
				got = sol(y, m, d, 0, 0, 0).GetXingZuo()
				if inTable(got) != 1 {
					return false, got, "exactly one of the twelve signs"
				}
				return got == c20Sign(m, d), got, c20Sign(m, d)
			})
			if got != prevSign {
				run++
				starts = append(starts, fmt.Sprintf("%d-%d %s", m, d, got))
				prevSign = got
			}
		}
		// 2-29 (the walk above passes through February 2001, which has no 29th)
		chk("sign-of-day", "2-29", func() (bool, string, string) {
			got := sol(2000, 2, 29, 0, 0, 0).GetXingZuo()
			return got == c20Sign(2, 29) && got == sol(2000, 2, 28, 0, 0, 0).GetXingZuo() && got == sol(2000, 3, 1, 0, 0, 0).GetXingZuo(), got, c20Sign(2, 29) + ", as on 2-28 and 3-1"
		})
		chk("sign-runs", "3-21..3-20", func() (bool, string, string) {
			var exp []string
			for _, s := range c20Signs {
				exp = append(exp, fmt.Sprintf("%d-%d %s", s.m, s.d, s.name))
			}
			return run == 12 && c20J(starts) == c20J(exp), c20J(starts), c20J(exp)
		})
	}

	// ---------- festival tables, parsed by the harness ----------
	type weekFest struct {
		key     string
		m, k, w int
		name    string
	}
	var weekFests []weekFest
	for key, name := range SolarUtil.WEEK_FESTIVAL {
		var m, k, w int
		n, err := fmt.Sscanf(key, "%d-%d-%d", &m, &k, &w)
		key, name := key, name
		chk("week-festival-key", key, func() (bool, string, string) {
			ok := err == nil && n == 3 && m >= 1 && m <= 12 && k >= 0 && k <= 5 && w >= 0 && w <= 6 && fmt.Sprintf("%d-%d-%d", m, k, w) == key
			return ok, key, "month-k-weekday with month 1..12, k 0..5, weekday 0..6"
		})
		weekFests = append(weekFests, weekFest{key, m, k, w, name})
	}
	sort.Slice(weekFests, func(a, b int) bool { return weekFests[a].key < weekFests[b].key })
	type fixedFest struct {
		key   string
		m, d  int
		names []string
	}
	parseFixed := func(kind, key string) (int, int, bool) {
		var m, d int
		n, err := fmt.Sscanf(key, "%d-%d", &m, &d)
		ok := err == nil && n == 2 && m >= 1 && m <= 12 && d >= 1 && d <= 31 && fmt.Sprintf("%d-%d", m, d) == key
		if ok { // a day of the calendar (2000 is a leap year)
			_, mm, dd := c20FromJdn(c20Jdn(2000, m, d))
			ok = mm == m && dd == d
		}
		chk(kind, key, func() (bool, string, string) { return ok, key, "month-day of a calendar day" })
		return m, d, ok
	}
	var fixed, other []fixedFest
	for key, name := range SolarUtil.FESTIVAL {
		if m, d, ok := parseFixed("festival-key", key); ok {
			fixed = append(fixed, fixedFest{key, m, d, []string{name}})
		}
	}
	for key, names := range SolarUtil.OTHER_FESTIVAL {
		if m, d, ok := parseFixed("other-festival-key", key); ok {
			other = append(other, fixedFest{key, m, d, append([]string{}, names...)})
		}
	}
	sort.Slice(fixed, func(a, b int) bool { return fixed[a].key < fixed[b].key })
	sort.Slice(other, func(a, b int) bool { return other[a].key < other[b].key })
	// where a reported name can come from (to name the clause a mismatch belongs to)
	source := map[string]string{}
	for _, f := range fixed {
		source[f.names[0]] = "fixed-festival"
	}
	for _, f := range weekFests {
		if _, dup := source[f.name]; dup {
			source[f.name] = "festival"
		} else if f.k == 0 {
			source[f.name] = "week-festival-last"
		} else {
			source[f.name] = "week-festival-kth"
		}
	}

	// ---------- every day of the sweep years ----------
	nYears, nDays, nWeekOcc, n5th := 0, 0, 0, 0
	samples := 0
	// the sweep is cheap: every civil year 1..9998 at every tier, sharded by year
	var years []int
	for y := 1; y <= 9998; y++ {
		if y%shardN == shardI {
			years = append(years, y)
		}
	}
	for _, y := range years {
		nYears++
		jan1, dec31 := c20Jdn(y, 1, 1), c20Jdn(y, 12, 31)
		expFest := map[int][]string{}  // JDN -> expected GetFestivals
		expOther := map[int][]string{} // JDN -> expected GetOtherFestivals
		exists := func(m, d int) (int, bool) {
			j := c20Jdn(y, m, d)
			yy, mm, dd := c20FromJdn(j)
			return j, yy == y && mm == m && dd == d
		}
		for _, f := range fixed {
			if j, ok := exists(f.m, f.d); ok {
				expFest[j] = append(expFest[j], f.names...)
			}
		}
		for _, f := range other {
			if j, ok := exists(f.m, f.d); ok {
				expOther[j] = append(expOther[j], f.names...)
			}
		}
		weekDay := map[string]int{} // key -> JDN of the one day it is due (absent: no such occurrence this year)
		for _, f := range weekFests {
			// occurrences of weekday w in month m of year y
			var occ []int
			for j := c20Jdn(y, f.m, 1); ; j++ {
				yy, mm, _ := c20FromJdn(j)
				if yy != y || mm != f.m {
					break
				}
				if c20Wd(j) == f.w {
					occ = append(occ, j)
				}
			}
			if len(occ) == 5 {
				n5th++
			}
			due := -1
			if f.k == 0 {
				if len(occ) > 0 {
					due = occ[len(occ)-1]
				}
			} else if f.k <= len(occ) {
				due = occ[f.k-1]
			}
			if due >= 0 {
				weekDay[f.key] = due
				expFest[due] = append(expFest[due], f.name)
				nWeekOcc++
				if samples < 3 && shardI == 0 {
					samples++
					yy, mm, dd := c20FromJdn(due)
					fmt.Fprintf(out, "SAMPLE %s (%s) due %04d-%02d-%02d\n", f.key, f.name, yy, mm, dd)
				}
			}
		}
		reportedOn := map[string][]string{} // festival name -> days it was reported on this year
		totalGot, totalExp := 0, 0
		for j := jan1; j <= dec31; j++ {
			yy, m, d := c20FromJdn(j)
			if yy != y {
				continue
			}
			nDays++
			t := randTime()
			s := sol(y, m, d, t.h, t.mi, t.s)
			in := fmt.Sprintf("%04d-%02d-%02d", y, m, d)
			chk("sign-every-year", fmt.Sprintf("%s %02d:%02d:%02d", in, t.h, t.mi, t.s), func() (bool, string, string) {
				got := s.GetXingZuo()
				if alias := s.GetXingzuo(); alias != got {
					return false, "GetXingzuo " + alias, "GetXingZuo " + got
				}
				return got == c20Sign(m, d), got, c20Sign(m, d) + " (depends on month and day only)"
			})
			var got []string
			okCall := false
			chk("festivals-call", in, func() (bool, string, string) {
				got = c20Strs(s.GetFestivals())
				okCall = true
				return true, "", ""
			})
			if okCall {
				exp := expFest[j]
				totalGot += len(got)
				totalExp += len(exp)
				for _, g := range got {
					reportedOn[g] = append(reportedOn[g], in)
				}
				for _, miss := range c20Minus(exp, got) {
					miss := miss
					kind := source[miss]
					chk(kind+"-missing", in+" "+miss, func() (bool, string, string) {
						return false, c20J(got), c20J(exp)
					})
				}
				for _, ex := range c20Minus(got, exp) {
					ex := ex
					kind, known := source[ex]
					if !known {
						kind = "festival-unknown"
					}
					chk(kind+"-extra", in+" "+ex, func() (bool, string, string) {
						return false, c20J(got), c20J(exp)
					})
				}
				if len(c20Minus(exp, got)) == 0 && len(c20Minus(got, exp)) == 0 {
					count++ // the day's report equals the expected multiset
				}
			}
			chk("other-festivals", in, func() (bool, string, string) {
				o := c20Strs(s.GetOtherFestivals())
				exp := expOther[j]
				return len(o) == len(exp) && len(c20Minus(exp, o)) == 0 && len(c20Minus(o, exp)) == 0, c20J(o), c20J(exp)
			})
		}
		// once per year each, on the due day
		for _, f := range weekFests {
			f := f
			due, have := weekDay[f.key]
			chk("week-festival-once", fmt.Sprintf("%d %s", y, f.key), func() (bool, string, string) {
				days := reportedOn[f.name]
				if !have {
					return len(days) == 0, c20J(days), "not reported (the month has no such occurrence)"
				}
				yy, mm, dd := c20FromJdn(due)
				exp := fmt.Sprintf("%04d-%02d-%02d", yy, mm, dd)
				return len(days) == 1 && days[0] == exp, c20J(days), "exactly once, on " + exp
			})
		}
		chk("festivals-year-total", fmt.Sprint(y), func() (bool, string, string) {
			return totalGot == totalExp, fmt.Sprintf("%d reports", totalGot), fmt.Sprintf("%d", totalExp)
		})
	}
	fmt.Fprintf(out, "COUNT %d\n", count)
	fmt.Fprintf(out, "STAT years=%d\n", nYears)
	fmt.Fprintf(out, "STAT days=%d\n", nDays)
	fmt.Fprintf(out, "STAT weekFestivalKeys=%d\n", len(weekFests))
	fmt.Fprintf(out, "STAT weekFestivalDueDays=%d\n", nWeekOcc)
	fmt.Fprintf(out, "STAT monthsWithFiveOccurrences=%d\n", n5th)
}
