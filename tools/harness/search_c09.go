package main

// search-C09: results do not depend on call history or on concurrent callers.
// A fixed set of ~200 calls (each with a canonical string result; a panic is part of the result) is evaluated once
// in a fresh process state (reference) and then again in seeded random orders, cold/warm cache, interleaved with calls
// for other years and with recovered panics; every result must equal the reference ("history-dependent"); after every
// recovered panic the year-cache lock must be free ("lock-leaked"). Then N goroutines run shuffled copies of the call
// set concurrently while reader goroutines call read-only accessors on ONE shared Lunar/Solar/LunarYear; all results
// must equal the reference ("schedule-dependent"), and a watchdog flags "blocked" after 10 s without progress.
// The harness itself shares no mutable state between goroutines (own result slices, one atomic counter), so that the
// orchestrator's -race run only reports races of the library.

import (
	"container/list"
	"fmt"
	"strings"
	"sync"
	"sync/atomic"
	"time"

	"github.com/6tail/lunar-go/HolidayUtil"
	"github.com/6tail/lunar-go/calendar"
)

func init() {
	modes["search-C09"] = searchC09
}

type c09Op struct {
	name string
	f    func() string
}

// run evaluates an op; a panic becomes part of the canonical result
func (o c09Op) run() (res string) {
	defer func() {
		if r := recover(); r != nil {
			res = fmt.Sprintf("panic: %v", r)
		}
	}()
	return o.f()
}

func c09List(l *list.List) string {
	if l == nil {
		return "nil"
	}
	var p []string
	for e := l.Front(); e != nil; e = e.Next() {
		p = append(p, fmt.Sprint(e.Value))
	}
	return "[" + strings.Join(p, ",") + "]"
}

func c09Months(ly *calendar.LunarYear) string {
	var p []string
	for e := ly.GetMonths().Front(); e != nil; e = e.Next() {
		p = append(p, monthRecStr(e.Value.(*calendar.LunarMonth)))
	}
	return strings.Join(p, " ")
}

// c09Lunar: digest of a lunar date through read-only accessors only (safe on a shared object)
func c09Lunar(l *calendar.Lunar) string {
	e := l.GetEightChar()
	t := l.GetTime()
	return strings.Join([]string{
		lunarFields(l), l.ToFullString(), e.String(), e.GetDayDiShi(), e.GetTaiYuan(), e.GetMingGong(),
		l.GetYearNineStar().String(), l.GetMonthNineStar().String(), l.GetDayNineStar().String(), l.GetTimeNineStar().String(),
		c11JQ(l.GetPrevJieQi()), c11JQ(l.GetNextJie()), l.GetJieQi(), c09List(l.GetFestivals()), c09List(l.GetOtherFestivals()),
		c09List(l.GetDayYi()), c09List(l.GetDayJi()), c09List(l.GetTimeYi()), l.GetHou(), l.GetWuHou(), t.GetGanZhi(), t.GetTianShen(),
		l.GetFoto().ToFullString(), l.GetTao().ToFullString(), l.GetSolar().ToFullString(),
	}, "|")
}

func c09Solar(s *calendar.Solar) string {
	return strings.Join([]string{s.ToFullString(), fmt.Sprint(s.GetWeek(), s.GetJulianDay(), s.IsLeapYear()), s.GetXingZuo(), c09List(s.GetFestivals()), c09List(s.GetOtherFestivals()),
		s.NextDay(40).ToYmd(), s.NextMonth(-14).ToYmd(), s.NextYear(3).ToYmd(), s.NextHour(-30).ToYmdHms()}, "|")
}

func c09Year(ly *calendar.LunarYear) string {
	return strings.Join([]string{fmt.Sprint(ly.GetYear(), ly.GetLeapMonth(), ly.GetDayCount(), ly.GetMonthsInYear().Len()), ly.GetGanZhi(), c09Months(ly),
		ly.GetNineStar().String(), ly.GetTouLiang(), ly.GetRenChu(), ly.GetYuan(), ly.GetYun(), ly.GetPositionTaiSui(), fmt.Sprint(ly.GetJieQiJulianDays()[3], ly.GetJieQiJulianDays()[30])}, "|")
}

func c09Holiday(h *HolidayUtil.Holiday) string {
	if h == nil {
		return "nil"
	}
	return fmt.Sprintf("%s/%s/%v/%s", h.GetDay(), h.GetName(), h.IsWork(), h.GetTarget())
}

func c09Holidays(l *list.List) string {
	var p []string
	for e := l.Front(); e != nil; e = e.Next() {
		p = append(p, c09Holiday(e.Value.(*HolidayUtil.Holiday)))
	}
	return strings.Join(p, ",")
}

func c09Ops() []c09Op {
	var ops []c09Op
	add := func(name string, f func() string) { ops = append(ops, c09Op{name, f}) }
	type dt struct{ y, m, d, h, mi, s int }
	// A. civil -> lunar with a full digest
	for _, x := range []dt{{1, 1, 1, 0, 0, 0}, {1, 2, 10, 12, 0, 0}, {15, 12, 30, 6, 0, 0}, {22, 1, 15, 23, 0, 0}, {237, 6, 1, 1, 0, 0}, {239, 12, 31, 23, 59, 59},
		{1000, 2, 29, 0, 0, 0}, {1582, 10, 4, 12, 0, 0}, {1582, 10, 15, 12, 0, 0}, {1900, 1, 31, 0, 0, 0}, {1984, 2, 4, 23, 30, 0}, {1990, 4, 5, 9, 0, 0},
		{2000, 1, 1, 0, 0, 0}, {2020, 1, 25, 8, 0, 0}, {2023, 3, 22, 10, 0, 0}, {2023, 12, 22, 11, 27, 9}, {2024, 2, 4, 16, 27, 0}, {2024, 2, 10, 0, 0, 0},
		{2025, 1, 28, 23, 30, 0}, {2033, 8, 25, 5, 0, 0}, {2033, 12, 22, 13, 0, 0}, {2034, 1, 20, 13, 0, 0}, {2100, 2, 9, 9, 9, 9}, {3000, 6, 15, 18, 0, 0},
		{5000, 1, 1, 1, 1, 1}, {6771, 3, 3, 3, 3, 3}, {9998, 1, 1, 0, 0, 0}, {9998, 12, 31, 23, 59, 59}} {
		x := x
		add(fmt.Sprintf("Solar(%d-%d-%d %d:%d:%d).GetLunar digest", x.y, x.m, x.d, x.h, x.mi, x.s), func() string {
			return c09Lunar(calendar.NewSolar(x.y, x.m, x.d, x.h, x.mi, x.s).GetLunar())
		})
	}
	// B. lunar -> civil (incl. leap months) and back
	for _, x := range []dt{{1, 1, 1, 0, 0, 0}, {0, 11, 20, 0, 0, 0}, {2023, -2, 1, 5, 0, 0}, {2023, 2, 30, 5, 0, 0}, {2020, -4, 15, 0, 0, 0}, {2033, -11, 1, 12, 0, 0}, {2033, 11, 29, 12, 0, 0},
		{2034, 1, 1, 0, 0, 0}, {1900, 8, -1 + 16, 0, 0, 0}, {9998, 10, 1, 0, 0, 0}, {9997, 11, 1, 0, 0, 0}, {237, 12, 5, 0, 0, 0}, {239, 12, 5, 0, 0, 0}, {22, 12, 1, 0, 0, 0}, {1582, 9, 18, 0, 0, 0},
		{2024, 12, 29, 23, 0, 0}, {2025, 6, 1, 1, 0, 0}, {2025, -6, 1, 1, 0, 0}, {4000, 7, 7, 7, 7, 7}, {1600, 1, 1, 0, 0, 0}} {
		x := x
		add(fmt.Sprintf("NewLunar(%d,%d,%d,%d,%d,%d) round trip", x.y, x.m, x.d, x.h, x.mi, x.s), func() string {
			l := calendar.NewLunar(x.y, x.m, x.d, x.h, x.mi, x.s)
			s := l.GetSolar()
			b := s.GetLunar()
			return s.ToYmdHms() + "|" + lunarFields(l) + "|" + b.String() + "|" + l.GetEightChar().String()
		})
	}
	// C. invalid constructor arguments: the panic (and its message) is the result
	for _, x := range []dt{{2023, 2, 29, 0, 0, 0}, {2023, 13, 1, 0, 0, 0}, {1582, 10, 10, 0, 0, 0}, {2023, 4, 31, 0, 0, 0}, {2023, 4, 30, 24, 0, 0}, {2023, 0, 1, 0, 0, 0}, {2023, 1, 1, 0, 60, 0}} {
		x := x
		add(fmt.Sprintf("NewSolar(%d,%d,%d,%d,%d,%d) invalid", x.y, x.m, x.d, x.h, x.mi, x.s), func() string {
			return calendar.NewSolar(x.y, x.m, x.d, x.h, x.mi, x.s).ToYmdHms()
		})
	}
	for _, x := range []dt{{2023, 13, 1, 0, 0, 0}, {2023, -3, 1, 0, 0, 0}, {2023, 1, 31, 0, 0, 0}, {2023, 3, 30, 0, 0, 0}, {2023, 0, 1, 0, 0, 0}, {2023, 5, 0, 0, 0, 0}, {2024, -2, 1, 0, 0, 0}, {2033, -7, 1, 0, 0, 0}} {
		x := x
		add(fmt.Sprintf("NewLunar(%d,%d,%d) invalid", x.y, x.m, x.d), func() string {
			return calendar.NewLunar(x.y, x.m, x.d, x.h, x.mi, x.s).GetSolar().ToYmdHms()
		})
	}
	add("NewLunarMonthFromYm(2023,-5) nil", func() string {
		m := calendar.NewLunarMonthFromYm(2023, -5)
		if m == nil {
			return "nil"
		}
		return monthRecStr(m)
	})
	add("NewLunarMonthFromYm(2023,-5).GetDayCount on nil", func() string { return fmt.Sprint(calendar.NewLunarMonthFromYm(2023, -5).GetDayCount()) })
	add("NewTaoFromYmd(4720,13,1) invalid", func() string { return calendar.NewTaoFromYmd(4720, 13, 1).String() })
	add("NewFotoFromYmd(2567,2,31) invalid", func() string { return calendar.NewFotoFromYmd(2567, 2, 31).String() })
	// D. accessor chains
	for _, x := range []dt{{1988, 2, 15, 23, 30, 0}, {2005, 12, 23, 8, 37, 0}, {3, 3, 1, 4, 0, 0}, {9900, 7, 1, 12, 0, 0}, {2024, 2, 4, 16, 26, 59}} {
		x := x
		tag := fmt.Sprintf("%d-%d-%d %d:%d:%d", x.y, x.m, x.d, x.h, x.mi, x.s)
		mk := func() *calendar.Lunar { return calendar.NewSolar(x.y, x.m, x.d, x.h, x.mi, x.s).GetLunar() }
		add(tag+" yun chain", func() string {
			e := mk().GetEightChar()
			e.SetSect(1)
			var p []string
			for _, g := range []int{1, 0} {
				y := e.GetYunBySect(g, 2)
				dy := y.GetDaYun()
				p = append(p, c11YunStr(y), c11DaYunStr(dy), dy[3].GetLiuNian()[2].GetGanZhi(), dy[3].GetLiuNian()[2].GetLiuYue()[11].GetGanZhi(), dy[9].GetXiaoYun()[9].GetGanZhi(), e.GetYun(g).GetStartSolar().ToYmdHms())
			}
			return strings.Join(p, "|")
		})
		add(tag+" eight characters both sects", func() string {
			e := mk().GetEightChar()
			a := ecStr(e)
			e.SetSect(1)
			return a + "#" + ecStr(e)
		})
		add(tag+" hour objects", func() string {
			var p []string
			for _, t := range mk().GetTimes() {
				p = append(p, t.GetGanZhi()+t.GetTianShen()+t.GetNineStar().String()+t.GetMinHm()+c09List(t.GetYi()))
			}
			return strings.Join(p, ",")
		})
		add(tag+" terms and seasons", func() string {
			l := mk()
			fu, sj := "nil", "nil"
			if f := l.GetFu(); f != nil {
				fu = f.ToFullString()
			}
			if s := l.GetShuJiu(); s != nil {
				sj = s.ToFullString()
			}
			var p []string
			for _, n := range calendar.JIE_QI_IN_USE {
				p = append(p, l.GetJieQiTable()[n].ToYmdHms())
			}
			return strings.Join([]string{fu, sj, c11JQ(l.GetPrevJie()), c11JQ(l.GetNextQi()), c11JQ(l.GetPrevJieQiByWholeDay(true)), strings.Join(p, ",")}, "|")
		})
		add(tag+" almanac", func() string { l := mk(); return almStr(l) + "#" + timeStr(l.GetTime()) + "#" + tfStr(l) })
		add(tag+" lunar.Next walk", func() string {
			l := mk()
			r := l.Next(1).String() + l.Next(-400).String()
			if x.y < 9900 {
				r += l.Next(20000).String()
			}
			if x.y > 100 {
				r += l.Next(-20000).String()
			}
			return r
		})
	}
	// E. lunar year tables and month walks
	for _, y := range []int{0, 1, 22, 237, 1000, 1900, 2023, 2033, 5000, 9999} {
		y := y
		add(fmt.Sprintf("NewLunarYear(%d) digest", y), func() string { return c09Year(calendar.NewLunarYear(y)) })
	}
	for _, x := range [][3]int{{2000, 1, 1}, {2000, 1, 12}, {2000, 1, 13}, {2000, 1, 37}, {2000, 1, 100}, {2000, 1, 300}, {2000, 1, 700}, {2000, 1, -1}, {2000, 1, -13}, {2000, 1, -100}, {2000, 1, -300},
		{2000, 1, -700}, {2023, -2, 1}, {2023, -2, -1}, {2023, -2, 25}, {2023, -2, -25}, {9990, 1, 50}, {10, 1, -60}, {2033, -11, 0}, {2033, 11, 2}, {238, 1, 30}, {15, 12, 14}} {
		x := x
		add(fmt.Sprintf("LunarMonth(%d,%d).Next(%d)", x[0], x[1], x[2]), func() string {
			m := calendar.NewLunarMonthFromYm(x[0], x[1]).Next(x[2])
			if m == nil {
				return "nil"
			}
			return monthRecStr(m) + " " + m.GetGanZhi() + " " + m.GetNineStar().String() + " " + m.GetPositionTaiSui()
		})
	}
	for _, x := range [][2]int{{2020, 1}, {2020, -30}, {100, 2500}, {9000, 999}, {5, -5}} {
		x := x
		add(fmt.Sprintf("NewLunarYear(%d).Next(%d)", x[0], x[1]), func() string {
			a := calendar.NewLunarYear(x[0])
			b := a.Next(x[1])
			return fmt.Sprint(a.GetYear(), a.GetLeapMonth(), a.GetDayCount(), " ", b.GetYear(), b.GetLeapMonth(), b.GetDayCount(), " ", a.GetMonthsInYear().Len(), b.GetMonthsInYear().Len())
		})
	}
	// F. holidays (no Fix)
	for _, d := range []string{"2023-10-01", "2020-01-26", "2020-02-01", "2010-02-14", "1999-01-01", "2024-02-18", "20240210", "2001-12-29"} {
		d := d
		add("GetHoliday("+d+")", func() string { return c09Holiday(HolidayUtil.GetHoliday(d)) })
	}
	add("GetHolidaysByYear(2021)", func() string { return c09Holidays(HolidayUtil.GetHolidaysByYear(2021)) })
	add("GetHolidaysByYm(2022,10)", func() string { return c09Holidays(HolidayUtil.GetHolidaysByYm(2022, 10)) })
	add("GetHolidays(2015)", func() string { return c09Holidays(HolidayUtil.GetHolidays("2015")) })
	add("GetHolidaysByTarget(2020-01-25)", func() string { return c09Holidays(HolidayUtil.GetHolidaysByTarget("2020-01-25")) })
	add("GetHolidaysByTargetYmd(2019,10,1)", func() string { return c09Holidays(HolidayUtil.GetHolidaysByTargetYmd(2019, 10, 1)) })
	for _, x := range [][4]int{{2023, 9, 28, 5}, {2020, 1, 20, 10}, {2020, 2, 3, -7}, {2024, 4, 30, 3}, {1995, 6, 1, 30}, {2022, 10, 10, -3}} {
		x := x
		add(fmt.Sprintf("Solar(%d-%d-%d).Next(%d,workdays)", x[0], x[1], x[2], x[3]), func() string {
			s := calendar.NewSolarFromYmd(x[0], x[1], x[2])
			return s.Next(x[3], true).ToYmd() + fmt.Sprint(" rate ", s.GetSalaryRate())
		})
	}
	// G. eight-character reverse lookups
	for _, x := range [][]string{{"庚午", "己卯", "庚子", "辛巳"}, {"甲子", "丙寅", "甲子", "甲子"}, {"癸卯", "甲寅", "癸丑", "甲子"}, {"己亥", "丁丑", "壬寅", "戊申"}, {"庚子", "戊子", "己卯", "庚午"}, {"甲辰", "丙寅", "甲辰", "丙寅"}} {
		x := x
		add("ListSolarFromBaZi "+strings.Join(x, ""), func() string {
			return c11Solars(calendar.ListSolarFromBaZi(x[0], x[1], x[2], x[3])) + "|" + c11Solars(calendar.ListSolarFromBaZiBySect(x[0], x[1], x[2], x[3], 1)) + "|" +
				c11Solars(calendar.ListSolarFromBaZiBySectAndBaseYear(x[0], x[1], x[2], x[3], 2, 1780))
		})
	}
	// H. civil arithmetic and units
	for _, x := range []dt{{2024, 2, 29, 12, 0, 0}, {1582, 10, 4, 0, 0, 0}, {2, 3, 1, 0, 0, 0}, {9990, 12, 31, 23, 59, 59}, {2022, 5, 1, 0, 0, 0}} {
		x := x
		tag := fmt.Sprintf("%d-%d-%d", x.y, x.m, x.d)
		add(tag+" solar digest", func() string { return c09Solar(calendar.NewSolar(x.y, x.m, x.d, x.h, x.mi, x.s)) })
		add(tag+" week/month/season/half-year/year", func() string {
			w := calendar.NewSolarWeekFromYmd(x.y, x.m, x.d, 1)
			mo := calendar.NewSolarMonthFromYm(x.y, x.m)
			return strings.Join([]string{w.ToFullString(), fmt.Sprint(w.GetIndexInYear()), w.GetFirstDay().ToYmd(), fmt.Sprint(mo.GetDays().Len(), mo.GetWeeks(0).Len()), mo.Next(25).String(),
				calendar.NewSolarSeasonFromYm(x.y, x.m).Next(-3).ToFullString(), calendar.NewSolarHalfYearFromYm(x.y, x.m).Next(3).ToFullString(), calendar.NewSolarYearFromYear(x.y).Next(1).ToFullString()}, "|")
		})
	}
	for _, jd := range []float64{2459580.4999999, 1721424.5, 2299160.5, 2460000.123456, 5373484.49} {
		jd := jd
		add(fmt.Sprintf("NewSolarFromJulianDay(%v)", jd), func() string { return calendar.NewSolarFromJulianDay(jd).ToYmdHms() })
	}
	// I. Tao / Foto constructors
	add("NewTaoFromYmd(4721,1,1)", func() string {
		t := calendar.NewTaoFromYmd(4721, 1, 1)
		return t.ToFullString() + c09List(t.GetFestivals()) + t.GetLunar().GetSolar().ToYmd()
	})
	add("NewFoto(2567,4,8)", func() string {
		f := calendar.NewFoto(2567, 4, 8, 3, 0, 0)
		return f.ToFullString() + f.GetXiu() + c09List(f.GetOtherFestivals()) + f.GetLunar().GetSolar().ToYmd()
	})
	add("NewTao(2698,12,29)", func() string { return calendar.NewTao(2698, 12, 29, 23, 0, 0).GetLunar().ToFullString() })
	add("NewFotoFromYmd(545,1,1)", func() string { return calendar.NewFotoFromYmd(545, 1, 1).GetLunar().GetSolar().ToYmd() })
	return ops
}

// noise: calls for other years / invalid input between the ops of a history; returns whether it panicked
func c09Noise(k int, a, b int) (panicked bool) {
	defer func() {
		if r := recover(); r != nil {
			panicked = true
		}
	}()
	y := 1 + a%9998
	switch k % 7 {
	case 0:
		calendar.NewLunarYear(y)
	case 1:
		calendar.NewSolar(y, 1+b%12, 1+b%28, b%24, 0, 0).GetLunar().ToFullString()
	case 2:
		calendar.NewLunarMonthFromYm(y, 1+b%12).Next(b%300 - 150)
	case 3:
		calendar.NewLunar(y, 13+b%3, 1, 0, 0, 0) // always panics
	case 4:
		calendar.NewLunar(y, 1+b%12, 31, 0, 0, 0) // always panics
	case 5:
		calendar.NewSolar(y, 2, 30, 0, 0, 0) // always panics
	case 6:
		calendar.NewLunar(y, -(1 + b%12), 30, 0, 0, 0).GetSolar() // panics unless that leap month exists with 30 days
	}
	return false
}

func searchC09() {
	defer dqProf()()
	ck := dqNew("C09", 20)
	ops := c09Ops()
	n := len(ops)
	nRuns, nPanicsChecked, nNoise, nConcurrent, nSharedReads := 0, 0, 0, 0, 0
	var samples []string

	lockCheck := func(where string) {
		nPanicsChecked++
		ck.count++
		if !calendar.VerifLockFree() {
			ck.report("lock-leaked", where, "year-cache lock still held after a recovered panic", "lock free")
		}
	}
	// reference: fresh state, declaration order
	calendar.VerifDropCache()
	ref := make([]string, n)
	nPanicOps := 0
	for i, o := range ops {
		ref[i] = o.run()
		if strings.HasPrefix(ref[i], "panic:") {
			nPanicOps++
			lockCheck(o.name)
		}
	}
	if n > 20 {
		samples = append(samples, fmt.Sprintf("%s => %.80s", ops[3].name, ref[3]), fmt.Sprintf("%s => %.80s", ops[52].name, ref[52]))
	}
	compare := func(kind string, i int, got string, history string) {
		ck.count++
		if got != ref[i] {
			a, b := got, ref[i]
			k := 0
			for k < len(a) && k < len(b) && a[k] == b[k] {
				k++
			}
			lo := k - 30
			if lo < 0 {
				lo = 0
			}
			cut := func(s string) string {
				hi := k + 60
				if hi > len(s) {
					hi = len(s)
				}
				if lo > len(s) {
					return ""
				}
				return strings.ToValidUTF8(s[lo:hi], "?")
			}
			ck.report(kind, ops[i].name, fmt.Sprintf("...%s... (%s)", cut(a), history), fmt.Sprintf("...%s...", cut(b)))
		}
	}
	history := func(mode int, perm []int) {
		nRuns++
		label := []string{"cold cache", "warm cache", "interleaved with other years", "interleaved with recovered panics and cache drops"}[mode]
		if mode == 0 || mode == 3 {
			calendar.VerifDropCache()
		}
		prev := "start"
		for _, i := range perm {
			if mode >= 2 {
				for rng.Intn(2) == 0 {
					k := rng.Intn(3)
					if mode == 3 {
						k = rng.Intn(7)
					}
					nNoise++
					a, b := rng.Intn(1<<20), rng.Intn(1<<20)
					if c09Noise(k, a, b) {
						lockCheck(fmt.Sprintf("noise call kind %d", k%7))
						prev = "recovered panic"
					}
					if mode == 3 && rng.Intn(6) == 0 {
						calendar.VerifDropCache()
					}
				}
			}
			got := ops[i].run()
			if strings.HasPrefix(got, "panic:") {
				lockCheck(ops[i].name)
			}
			compare("history-dependent", i, got, label+", after "+prev)
			prev = ops[i].name
		}
	}
	// the reverse order first, then seeded random orders in the four modes
	rev := make([]int, n)
	for i := range rev {
		rev[i] = n - 1 - i
	}
	history(0, rev)
	history(1, rev)
	rounds := 2
	if tier == "thorough" {
		rounds = 12
	}
	for r := 0; r < rounds; r++ {
		for mode := 0; mode < 4; mode++ {
			history(mode, rng.Perm(n))
		}
	}

	// ---- schedules
	goroutines := 4 + 4*(shardI%4) // 4, 8, 12, 16 depending on the shard
	perG := 1400 / goroutines      // calls per goroutine (concurrent calls nearly always miss the one-slot cache: ~5 ms each)
	if tier == "thorough" {
		perG = 12000 / goroutines
	}
	type miss struct {
		op  int
		got string
	}
	perms := make([][]int, goroutines)
	for g := range perms {
		for len(perms[g]) < perG {
			perms[g] = append(perms[g], rng.Perm(n)...)
		}
		perms[g] = perms[g][:perG]
	}
	// shared objects: built now, first read concurrently; their reference digests come from separate equal objects
	mkL := func() *calendar.Lunar { return calendar.NewSolar(2024, 2, 10, 23, 30, 0).GetLunar() }
	mkS := func() *calendar.Solar { return calendar.NewSolar(2023, 10, 1, 8, 30, 15) }
	refL, refS, refY := c09Lunar(mkL()), c09Solar(mkS()), c09Year(calendar.NewLunarYear(2033))
	sharedL, sharedS := mkL(), mkS()
	calendar.NewLunarYear(1999)
	sharedY := calendar.NewLunarYear(2033)
	readers := 4
	readIters := 120
	if tier == "thorough" {
		readIters = 500
	}
	var progress int64
	var wg sync.WaitGroup
	missW := make([][]miss, goroutines)
	missR := make([][]string, readers)
	for g := 0; g < goroutines; g++ {
		wg.Add(1)
		go func(g int) {
			defer wg.Done()
			for _, i := range perms[g] {
				got := ops[i].run()
				if got != ref[i] {
					missW[g] = append(missW[g], miss{i, got})
				}
				atomic.AddInt64(&progress, 1)
			}
		}(g)
	}
	for r := 0; r < readers; r++ {
		wg.Add(1)
		go func(r int) {
			defer wg.Done()
			for k := 0; k < readIters; k++ {
				var what, got, want string
				func() {
					defer func() {
						if e := recover(); e != nil {
							got = fmt.Sprintf("panic: %v", e)
						}
					}()
					switch (k + r) % 3 {
					case 0:
						what, want = "shared *Lunar 2024-02-10 23:30:00", refL
						got = c09Lunar(sharedL)
					case 1:
						what, want = "shared *Solar 2023-10-01 08:30:15", refS
						got = c09Solar(sharedS)
					default:
						what, want = "shared *LunarYear 2033", refY
						got = c09Year(sharedY)
					}
				}()
				if got != want {
					missR[r] = append(missR[r], what)
				}
				atomic.AddInt64(&progress, 1)
			}
		}(r)
	}
	done := make(chan struct{})
	go func() { wg.Wait(); close(done) }()
	total := int64(goroutines*perG + readers*readIters)
	last, lastChange := int64(-1), time.Now()
	blocked := false
wait:
	for {
		select {
		case <-done:
			break wait
		case <-time.After(200 * time.Millisecond):
			p := atomic.LoadInt64(&progress)
			if p != last {
				last, lastChange = p, time.Now()
			} else if time.Since(lastChange) > 10*time.Second {
				blocked = true
				break wait
			}
		}
	}
	ck.count++
	if blocked {
		ck.report("blocked", fmt.Sprintf("%d goroutines x shuffled call set + %d readers", goroutines, readers), fmt.Sprintf("no call completed for 10 s after %d of %d calls (lock free now: %v)", last, total, calendar.VerifLockFree()), "every call completes")
	} else {
		for g := range missW {
			for _, m := range missW[g] {
				compare("schedule-dependent", m.op, m.got, fmt.Sprintf("goroutine %d of %d", g, goroutines))
			}
		}
		for r := range missR {
			for _, what := range missR[r] {
				ck.count++
				ck.report("schedule-dependent-shared-read", what, "digest differs from the single-threaded digest of an equal object", "equal")
			}
		}
		nConcurrent = goroutines * perG
		nSharedReads = readers * readIters
		ck.count += nConcurrent + nSharedReads
		lockCheck("after the concurrent phase")
		// and the library still answers as before
		history(1, rng.Perm(n))
	}
	// caller-settable state: switching the day-boundary school on a lunar date's shared eight-character object changes the views of
	// that object only, never another accessor of the date (reflective probe, see history_probe.go)
	nProbe := 300
	if tier == "thorough" {
		nProbe = 4000
	}
	histProbes, histAccessors := histSectSweep(ck, nProbe)
	ck.finish(map[string]int{"eightchar_school_probes": histProbes, "eightchar_school_accessor_comparisons": histAccessors, "ops": n, "ops_that_panic": nPanicOps, "histories": nRuns, "noise_calls": nNoise, "lock_checks": nPanicsChecked,
		"goroutines": goroutines, "concurrent_calls": nConcurrent, "shared_reads": nSharedReads}, samples)
}
