package main

import (
	"fmt"
	"go/ast"
	"go/token"
	"go/types"
	"sort"
	"strings"
)

// read sets: for every method of a struct type in package calendar, the struct fields ("Type.field") and
// package-level tables ("pkg.NAME") it reads, transitively through calls of other methods / functions of
// the module whose bodies are available. Used by Props/C18 (attributes read only their defining inputs).
func computeReadSets(cs map[string]*checked) (map[string][]string, []string) {
	type fnInfo struct {
		pkg  string
		decl *ast.FuncDecl
		c    *checked
	}
	fns := map[string]*fnInfo{} // key: types.Func full name
	keyOf := func(f *types.Func) string { return f.FullName() }
	for name, c := range cs {
		for _, file := range c.p.files {
			for _, d := range file.Decls {
				fd, ok := d.(*ast.FuncDecl)
				if !ok || fd.Body == nil {
					continue
				}
				if obj, ok := c.info.Defs[fd.Name].(*types.Func); ok {
					fns[keyOf(obj)] = &fnInfo{name, fd, c}
				}
			}
		}
	}
	direct := map[string]map[string]bool{}
	calls := map[string]map[string]bool{}
	for k, fi := range fns {
		direct[k] = map[string]bool{}
		calls[k] = map[string]bool{}
		c := fi.c
		// a field that is only the TARGET of a plain assignment (`o.f = e`) is written, not read
		assigned := map[*ast.SelectorExpr]bool{}
		ast.Inspect(fi.decl.Body, func(n ast.Node) bool {
			if as, ok := n.(*ast.AssignStmt); ok && as.Tok == token.ASSIGN {
				for _, l := range as.Lhs {
					if se, ok := l.(*ast.SelectorExpr); ok {
						assigned[se] = true
					}
				}
			}
			return true
		})
		ast.Inspect(fi.decl.Body, func(n ast.Node) bool {
			switch x := n.(type) {
			case *ast.SelectorExpr:
				if sel, ok := c.info.Selections[x]; ok {
					switch sel.Kind() {
					case types.FieldVal:
						if assigned[x] {
							break
						}
						rt := sel.Recv()
						if pt, ok := rt.(*types.Pointer); ok {
							rt = pt.Elem()
						}
						direct[k][typeStr(rt)+"."+x.Sel.Name] = true
					case types.MethodVal:
						if f, ok := sel.Obj().(*types.Func); ok {
							calls[k][keyOf(f)] = true
						}
					}
				} else if obj, ok := c.info.Uses[x.Sel]; ok {
					// qualified identifier pkg.Name
					switch o := obj.(type) {
					case *types.Var:
						if o.Pkg() != nil && strings.HasPrefix(o.Pkg().Path(), modPath) && o.Parent() == o.Pkg().Scope() {
							direct[k][strings.TrimPrefix(o.Pkg().Path(), modPath)+"."+o.Name()] = true
						}
					case *types.Func:
						calls[k][keyOf(o)] = true
					}
				}
			case *ast.Ident:
				if obj, ok := c.info.Uses[x]; ok {
					switch o := obj.(type) {
					case *types.Var:
						if o.Pkg() != nil && o.Parent() == o.Pkg().Scope() && strings.HasPrefix(o.Pkg().Path(), modPath) {
							direct[k][strings.TrimPrefix(o.Pkg().Path(), modPath)+"."+o.Name()] = true
						}
					case *types.Func:
						if o.Pkg() != nil && strings.HasPrefix(o.Pkg().Path(), modPath) {
							calls[k][keyOf(o)] = true
						}
					}
				}
			}
			return true
		})
	}
	// transitive closure
	closure := map[string]map[string]bool{}
	var visit func(k string, stack map[string]bool) map[string]bool
	visit = func(k string, stack map[string]bool) map[string]bool {
		if r, ok := closure[k]; ok {
			return r
		}
		if stack[k] {
			return map[string]bool{}
		}
		stack[k] = true
		r := map[string]bool{}
		for d := range direct[k] {
			r[d] = true
		}
		for cal := range calls[k] {
			if _, ok := fns[cal]; ok {
				for d := range visit(cal, stack) {
					r[d] = true
				}
			}
		}
		delete(stack, k)
		closure[k] = r
		return r
	}
	res := map[string][]string{}
	var names []string
	for k, fi := range fns {
		if fi.pkg != "calendar" || fi.decl.Recv == nil || !fi.decl.Name.IsExported() {
			continue
		}
		if fi.decl.Type.Params != nil && len(fi.decl.Type.Params.List) > 0 {
			// keep methods with parameters too (BySect variants)
		}
		var l []string
		for d := range visit(k, map[string]bool{}) {
			l = append(l, d)
		}
		sort.Strings(l)
		nm := "calendar." + funcName(fi.decl)
		res[nm] = l
		names = append(names, nm)
	}
	sort.Strings(names)
	return res, names
}

func renderReadSets(cs map[string]*checked) string {
	rs, names := computeReadSets(cs)
	isTable := func(x string) bool {
		for _, pk := range []string{"LunarUtil.", "SolarUtil.", "calendar.", "FotoUtil.", "TaoUtil.", "HolidayUtil.", "ShouXingUtil."} {
			if strings.HasPrefix(x, pk) {
				return true
			}
		}
		return false
	}
	var sb strings.Builder
	sb.WriteString("/-- read set of every exported method of package calendar, transitively: (method, struct fields read as Type.field, package-level tables read as pkg.NAME) -/\n")
	sb.WriteString("def readSets : List (String × List String × List String) := [\n")
	for i, n := range names {
		var f, t []string
		for _, x := range rs[n] {
			if isTable(x) {
				t = append(t, leanStr(x))
			} else {
				f = append(f, leanStr(x))
			}
		}
		sep := ","
		if i == len(names)-1 {
			sep = ""
		}
		fmt.Fprintf(&sb, "  (%s, [%s], [%s])%s\n", leanStr(n), strings.Join(f, ", "), strings.Join(t, ", "), sep)
	}
	sb.WriteString("]\n\n")
	return sb.String()
}
