package main

import (
	"fmt"
	"go/ast"
	"go/token"
	"go/types"
	"sort"
	"strings"
)

// shared-state facts (C09): every package-level variable of the module with its type, and every assignment whose
// target is an ELEMENT reached through a package-level variable or a struct field (x[i] = v, x[i]++, *p = v):
// writes that the plain `writes` fact (whole-variable / whole-field assignments) does not see.
func renderSharedState(cs map[string]*checked) string {
	var sb strings.Builder
	names := []string{"SolarUtil", "LunarUtil", "ShouXingUtil", "HolidayUtil", "TaoUtil", "FotoUtil", "calendar"}
	var vars []string
	var ew []string
	for _, name := range names {
		c, ok := cs[name]
		if !ok {
			continue
		}
		sc := c.pkg.Scope()
		for _, n := range sc.Names() {
			if v, ok := sc.Lookup(n).(*types.Var); ok {
				vars = append(vars, fmt.Sprintf("  (%s, %s, %s)", leanStr(name), leanStr(n), leanStr(typeStr(v.Type()))))
			}
		}
		var bases []string
		for b := range c.p.files {
			bases = append(bases, b)
		}
		sort.Strings(bases)
		for _, b := range bases {
			for _, d := range c.p.files[b].Decls {
				fd, ok := d.(*ast.FuncDecl)
				if !ok || fd.Body == nil {
					continue
				}
				fn := name + "." + funcName(fd)
				// root of an element target
				var root func(e ast.Expr, depth int) string
				root = func(e ast.Expr, depth int) string {
					switch x := e.(type) {
					case *ast.ParenExpr:
						return root(x.X, depth)
					case *ast.IndexExpr:
						return root(x.X, depth+1)
					case *ast.StarExpr:
						return root(x.X, depth+1)
					case *ast.SliceExpr:
						return root(x.X, depth)
					case *ast.Ident:
						if depth == 0 {
							return ""
						}
						if v, ok := c.info.Uses[x].(*types.Var); ok && v.Pkg() != nil && v.Parent() == v.Pkg().Scope() {
							return "var:" + strings.TrimPrefix(v.Pkg().Path(), modPath) + "." + v.Name()
						}
						return ""
					case *ast.SelectorExpr:
						if depth == 0 {
							return ""
						}
						if sel, ok := c.info.Selections[x]; ok && sel.Kind() == types.FieldVal {
							rt := sel.Recv()
							if pt, ok := rt.(*types.Pointer); ok {
								rt = pt.Elem()
							}
							return "field:" + typeStr(rt) + "." + x.Sel.Name
						}
						if v, ok := c.info.Uses[x.Sel].(*types.Var); ok && v.Pkg() != nil && v.Parent() == v.Pkg().Scope() {
							return "var:" + strings.TrimPrefix(v.Pkg().Path(), modPath) + "." + v.Name()
						}
					}
					return ""
				}
				ast.Inspect(fd.Body, func(n ast.Node) bool {
					var lhs []ast.Expr
					switch s := n.(type) {
					case *ast.AssignStmt:
						if s.Tok != token.DEFINE {
							lhs = s.Lhs
						}
					case *ast.IncDecStmt:
						lhs = []ast.Expr{s.X}
					}
					for _, l := range lhs {
						if r := root(l, 0); r != "" {
							ew = append(ew, fmt.Sprintf("  (%s, %s)", leanStr(fn), leanStr(r)))
						}
					}
					return true
				})
			}
		}
	}
	sb.WriteString("/-- every package-level variable of the module: (package, name, type) -/\ndef pkgVars : List (String × String × String) := [\n")
	sb.WriteString(strings.Join(vars, ",\n"))
	sb.WriteString("\n]\n\n/-- assignments to an element reached through a package-level variable or a struct field: (function, root) -/\ndef elemWrites : List (String × String) := [\n")
	sb.WriteString(strings.Join(ew, ",\n"))
	sb.WriteString("\n]\n\n")
	return sb.String()
}
