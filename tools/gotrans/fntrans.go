package main

// fntrans — translator of Go function bodies to Lean (lean/Gen/Fn.lean).
//
// Subset: functions over int / bool values and structs of int / bool (and nested such struct) fields. The integer
// control flow and arithmetic are translated faithfully into Lean `do` blocks in the monad `Except Err`
// (Err.panic = Go panic, Err.fuel = a `for cond {}` loop ran out of the fuel argument):
//   - `/` and `%` become Int.tdiv / Int.tmod (Go truncation), with a panic on a zero divisor;
//   - `a && b` / `a || b` keep short-circuit evaluation when b can panic;
//   - `for i := a; i < b; i += c` (i, b not assigned in the body) becomes a bounded `for` over the exact trip count;
//     `for cond {}` becomes a fuel-bounded loop;
//   - pointer parameters to structs are values; a function that writes int fields of its pointer parameter returns
//     the updated struct. Nil pointers and aliasing are NOT modelled (recorded in `notes`).
// Everything outside the subset is never guessed:
//   - a maximal unsupported sub-expression of type int / bool / known struct becomes an ATOM: a parameter of the
//     Lean function (a function of the enclosing loop counters), whose Go source text is emitted in `atoms`;
//   - a statement that only touches values outside the subset (strings, maps, lists, floats) is DROPPED and its
//     source text is emitted in `dropped`;
//   - anything else makes the whole function SKIPPED with the reason in `skipped`.
// The texts in `atoms` / `dropped` are pinned by kernel-checked expectations on the Lean side, so that an edit to the
// untranslated remainder of a function is noticed as well.

import (
	"bytes"
	"fmt"
	"go/ast"
	"go/constant"
	"go/printer"
	"go/token"
	"go/types"
	"os"
	"path/filepath"
	"sort"
	"strings"
)

// targets: "pkg.Func" or "pkg.Type.Method"
var fnTargets = []string{
	"SolarUtil.IsLeapYear", "SolarUtil.GetDaysOfYear", "SolarUtil.GetDaysOfMonth", "SolarUtil.GetDaysInYear",
	"SolarUtil.IsBefore", "SolarUtil.GetDaysBetween", "SolarUtil.GetWeeksOfMonth",
	"calendar.NewSolar", "calendar.NewSolarFromYmd",
	"calendar.Solar.GetYear", "calendar.Solar.GetMonth", "calendar.Solar.GetDay", "calendar.Solar.GetHour", "calendar.Solar.GetMinute", "calendar.Solar.GetSecond",
	"calendar.Solar.Subtract", "calendar.Solar.SubtractMinute", "calendar.Solar.IsAfter", "calendar.Solar.IsBefore",
	"calendar.Solar.NextYear", "calendar.Solar.NextMonth", "calendar.Solar.NextDay", "calendar.Solar.NextHour", "calendar.Solar.Next",
	"calendar.NewSolarMonthFromYm", "calendar.SolarMonth.GetYear", "calendar.SolarMonth.GetMonth", "calendar.SolarMonth.Next",
	"calendar.NewSolarYearFromYear", "calendar.SolarYear.GetYear", "calendar.SolarYear.Next",
	"calendar.computeYear", "calendar.computeMonth", "calendar.computeDay", "calendar.computeTime", "calendar.computeWeek",
	"calendar.contains",
	"calendar.Lunar.getYearNineStar", "calendar.Lunar.GetMonthNineStarBySect", "calendar.Lunar.GetDayNineStar", "calendar.Lunar.GetTimeNineStar",
	"calendar.LunarTime.GetNineStar", "calendar.NewNineStar",
	"calendar.LunarYear.GetNineStar",
	"calendar.SolarWeek.GetIndex", "calendar.SolarWeek.GetIndexInYear",
	"calendar.Tao.GetYear", "calendar.Foto.GetYear",
	"calendar.Yun.computeStart",
	"calendar.Lunar.GetShuJiu", "calendar.Lunar.GetFu",
	"calendar.Yun.GetStartSolar", "calendar.NewDaYun", "calendar.NewLiuNian", "calendar.NewXiaoYun", "calendar.NewLiuYue",
	"calendar.SolarWeek.Next", "calendar.SolarWeek.GetFirstDay", "calendar.NewSolarWeekFromYmd",
	"calendar.NewSolarHalfYearFromYm", "calendar.SolarHalfYear.GetIndex", "calendar.SolarHalfYear.Next",
	"calendar.NewSolarSeasonFromYm", "calendar.SolarSeason.GetIndex", "calendar.SolarSeason.Next",
	"calendar.Foto.IsDayZhaiSix", "calendar.Foto.IsDayZhaiTen",
}

type kind struct {
	k string // "int","bool","struct","opaque"
	s string // struct name (package-less; all in calendar) for k=="struct"
}

func (k kind) lean() string {
	switch k.k {
	case "int":
		return "Int"
	case "bool":
		return "Bool"
	case "struct":
		return k.s
	case "ilist":
		return "List Int"
	}
	return "?"
}

type fnDecl struct {
	key   string // "pkg.Func" / "pkg.Type.Method"
	pkg   string
	decl  *ast.FuncDecl
	c     *checked
	obj   *types.Func
	lean  string
	calls map[string]bool // keys of module functions called (syntactically)
}

type atomInfo struct {
	name, ty, text string
}

type fnOut struct {
	ok       bool
	reason   string
	text     string
	atoms    []atomInfo
	dropped  []string
	notes    []string
	needFuel bool
	mutates  string // name of the struct param returned updated ("" if none)
	retKind  kind
	hasRet   bool
	optRet   bool     // pointer-to-struct result that may be nil: Option
	params   []string // lean param names in order (without fuel/atoms)
}

type structInfo struct {
	name   string
	fields []string // lean field decls in order
	fkind  map[string]kind
	opaque []string
}

type fnTrans struct {
	cs      map[string]*checked
	infos   map[string]*pkgInfo
	decls   map[string]*fnDecl // by key
	byObj   map[*types.Func]*fnDecl
	out     map[string]*fnOut
	structs map[string]*structInfo
	sorder  []string
	writes  map[string]map[string]bool // fn full name -> Type.field written transitively
	allObj  map[*types.Func]*fnDecl
	target  map[string]bool
	emit    []string
	order   []*fnDecl
}

var leanKeywords = map[string]bool{"as": true, "at": true, "end": true, "from": true, "do": true, "then": true, "else": true, "if": true, "let": true,
	"have": true, "show": true, "fun": true, "by": true, "in": true, "open": true, "def": true, "theorem": true, "where": true, "with": true,
	"match": true, "for": true, "return": true, "mut": true, "instance": true, "structure": true, "class": true, "namespace": true,
	"section": true, "variable": true, "universe": true, "import": true, "export": true, "private": true, "protected": true,
	"partial": true, "unsafe": true, "deriving": true, "extends": true, "macro": true, "syntax": true, "Type": true, "Prop": true,
	"Sort": true, "using": true, "at_": true, "this": true, "true": true, "false": true, "fuel": true, "break": true, "continue": true,
	"try": true, "catch": true, "finally": true, "throw": true, "unless": true, "calc": true, "obtain": true, "suffices": true, "nomatch": true, "exact": true}

func lid(s string) string {
	if leanKeywords[s] {
		return "«" + s + "»"
	}
	return s
}

func src(fset *token.FileSet, n ast.Node) string {
	var b bytes.Buffer
	printer.Fprint(&b, fset, n)
	s := b.String()
	s = strings.Join(strings.Fields(s), " ")
	return s
}

func (ft *fnTrans) kindOf(t types.Type) kind {
	if t == nil {
		return kind{k: "opaque"}
	}
	if p, ok := t.(*types.Pointer); ok {
		t = p.Elem()
	}
	switch u := t.(type) {
	case *types.Slice:
		if b, ok := u.Elem().(*types.Basic); ok && b.Kind() == types.Int {
			return kind{k: "ilist"}
		}
	case *types.Basic:
		switch u.Kind() {
		case types.Int, types.UntypedInt:
			return kind{k: "int"}
		case types.Bool, types.UntypedBool:
			return kind{k: "bool"}
		}
	case *types.Named:
		if _, ok := u.Underlying().(*types.Struct); ok && u.Obj().Pkg() != nil && strings.HasPrefix(u.Obj().Pkg().Path(), modPath) {
			if ft.structFor(u) != nil {
				return kind{k: "struct", s: u.Obj().Name()}
			}
		}
	}
	return kind{k: "opaque"}
}

// structFor registers the Lean structure for a module struct type: its int / bool / nested-struct fields.
func (ft *fnTrans) structFor(n *types.Named) *structInfo {
	name := n.Obj().Name()
	if si, ok := ft.structs[name]; ok {
		return si
	}
	st := n.Underlying().(*types.Struct)
	si := &structInfo{name: name, fkind: map[string]kind{}}
	ft.structs[name] = si // registered first: recursive types see themselves (and get the field as opaque below)
	for i := 0; i < st.NumFields(); i++ {
		f := st.Field(i)
		ft0 := f.Type()
		if p, ok := ft0.(*types.Pointer); ok {
			ft0 = p.Elem()
		}
		var k kind
		if nn, ok := ft0.(*types.Named); ok && nn.Obj().Name() == name {
			k = kind{k: "opaque"}
		} else if nn, ok := ft0.(*types.Named); ok {
			if _, known := ft.structs[nn.Obj().Name()]; known && !ft.done(nn.Obj().Name()) {
				k = kind{k: "opaque"} // cycle
			} else {
				k = ft.kindOf(f.Type())
			}
		} else {
			k = ft.kindOf(f.Type())
		}
		if k.k == "opaque" {
			si.opaque = append(si.opaque, f.Name()+" "+typeStr(f.Type()))
			continue
		}
		si.fkind[f.Name()] = k
		si.fields = append(si.fields, fmt.Sprintf("%s : %s", lid(f.Name()), k.lean()))
	}
	ft.sorder = append(ft.sorder, name)
	return si
}

func (ft *fnTrans) done(name string) bool {
	for _, s := range ft.sorder {
		if s == name {
			return true
		}
	}
	return false
}

// ---------------------------------------------------------------- per-function translation

type tctx struct {
	ft       *fnTrans
	fd       *fnDecl
	out      *fnOut
	locals   map[types.Object]kind // translated locals / params
	loopCtr  []string              // lean names (Int-valued) of enclosing loop counters
	tmp      int
	fail     string
	mutParam types.Object
	inLoop   int
}

func (t *tctx) failf(f string, a ...interface{}) {
	if t.fail == "" {
		t.fail = fmt.Sprintf(f, a...)
	}
}

func (t *tctx) fresh(p string) string {
	t.tmp++
	return fmt.Sprintf("%s%d", p, t.tmp)
}

func (t *tctx) info() *types.Info    { return t.fd.c.info }
func (t *tctx) fset() *token.FileSet { return t.fd.c.p.fset }

func (t *tctx) typeOf(e ast.Expr) types.Type {
	if tv, ok := t.info().Types[e]; ok {
		return tv.Type
	}
	if id, ok := e.(*ast.Ident); ok {
		if o := t.info().Uses[id]; o != nil {
			return o.Type()
		}
		if o := t.info().Defs[id]; o != nil {
			return o.Type()
		}
	}
	return nil
}

type ex struct {
	pre  []string
	text string
}

func ind(lines []string) []string {
	r := make([]string, len(lines))
	for i, l := range lines {
		r[i] = "  " + l
	}
	return r
}

// atom: the expression is outside the subset but has a supported type
func (t *tctx) atom(e ast.Expr, k kind) (ex, bool) {
	if k.k == "opaque" {
		return ex{}, false
	}
	name := fmt.Sprintf("a%d", len(t.out.atoms)+1)
	ty := k.lean()
	for range t.loopCtr {
		ty = "Int → " + ty
	}
	pos := t.fset().Position(e.Pos()).Line - t.fset().Position(t.fd.decl.Pos()).Line
	t.out.atoms = append(t.out.atoms, atomInfo{name, ty, fmt.Sprintf("+%d: %s", pos, src(t.fset(), e))})
	text := name
	if len(t.loopCtr) > 0 {
		text = "(" + name + " " + strings.Join(t.loopCtr, " ") + ")"
	}
	return ex{text: text}, true
}

// expr translates e; when it cannot and the type is int/bool/struct it falls back to an atom; ok=false: opaque.
func (t *tctx) expr(e ast.Expr) (ex, bool) {
	k := t.ft.kindOf(t.typeOf(e))
	if r, ok := t.exprIn(e); ok {
		return r, true
	}
	return t.atom(e, k)
}

func litInt(v constant.Value) (string, bool) {
	if v == nil || v.Kind() != constant.Int {
		return "", false
	}
	s := v.ExactString()
	if strings.HasPrefix(s, "-") {
		return "(" + s + ")", true
	}
	return s, true
}

func (t *tctx) tableName(e ast.Expr) (string, int, bool) {
	// package-level []int variable whose literal gotrans evaluated into Gen.Tables
	var obj types.Object
	switch x := e.(type) {
	case *ast.Ident:
		obj = t.info().Uses[x]
	case *ast.SelectorExpr:
		obj = t.info().Uses[x.Sel]
	}
	v, ok := obj.(*types.Var)
	if !ok || v.Pkg() == nil || v.Parent() != v.Pkg().Scope() {
		return "", 0, false
	}
	sl, ok := v.Type().(*types.Slice)
	if !ok {
		return "", 0, false
	}
	if b, ok := sl.Elem().(*types.Basic); !ok || b.Kind() != types.Int {
		return "", 0, false
	}
	pk := strings.TrimPrefix(v.Pkg().Path(), modPath)
	pi, ok := t.ft.infos[pk]
	if !ok {
		return "", 0, false
	}
	init, ok := pi.decls[v.Name()]
	if !ok || init == nil {
		return "", 0, false
	}
	val, ok := pi.eval(init, 0)
	if !ok || val.kind != "list" {
		return "", 0, false
	}
	for _, w := range val.list {
		if w.kind != "int" {
			return "", 0, false
		}
	}
	return "Gen.Tables." + pk + "." + leanIdent(v.Name()), len(val.list), true
}

func (t *tctx) calleeOf(call *ast.CallExpr) (*types.Func, ast.Expr) {
	switch f := call.Fun.(type) {
	case *ast.Ident:
		if o, ok := t.info().Uses[f].(*types.Func); ok {
			return o, nil
		}
	case *ast.SelectorExpr:
		if sel, ok := t.info().Selections[f]; ok {
			if sel.Kind() == types.MethodVal {
				if o, ok := sel.Obj().(*types.Func); ok {
					return o, f.X
				}
			}
			return nil, nil
		}
		if o, ok := t.info().Uses[f.Sel].(*types.Func); ok {
			return o, nil
		}
	}
	return nil, nil
}

func (t *tctx) exprIn(e ast.Expr) (ex, bool) {
	if tv, ok := t.info().Types[e]; ok && tv.Value != nil {
		if s, ok := litInt(tv.Value); ok && t.ft.kindOf(tv.Type).k == "int" {
			return ex{text: s}, true
		}
		if tv.Value.Kind() == constant.Bool {
			return ex{text: fmt.Sprint(constant.BoolVal(tv.Value))}, true
		}
	}
	switch x := e.(type) {
	case *ast.ParenExpr:
		return t.exprIn(x.X)
	case *ast.Ident:
		if x.Name == "true" || x.Name == "false" {
			return ex{text: x.Name}, true
		}
		o := t.info().Uses[x]
		if _, ok := t.locals[o]; ok {
			return ex{text: lid(x.Name)}, true
		}
		if s, ok := t.pkgInt(o); ok {
			return ex{text: s}, true
		}
		return ex{}, false
	case *ast.UnaryExpr:
		a, ok := t.exprIn(x.X)
		if !ok {
			return ex{}, false
		}
		switch x.Op {
		case token.SUB:
			return ex{a.pre, "(-" + a.text + ")"}, true
		case token.NOT:
			return ex{a.pre, "(!" + a.text + ")"}, true
		case token.ADD:
			return a, true
		}
		return ex{}, false
	case *ast.BinaryExpr:
		kx := t.ft.kindOf(t.typeOf(x.X))
		ky := t.ft.kindOf(t.typeOf(x.Y))
		switch x.Op {
		case token.LAND, token.LOR:
			a, ok1 := t.expr(x.X)
			b, ok2 := t.expr(x.Y)
			if !ok1 || !ok2 {
				return ex{}, false
			}
			op := "&&"
			if x.Op == token.LOR {
				op = "||"
			}
			if len(b.pre) == 0 {
				return ex{a.pre, "(" + a.text + " " + op + " " + b.text + ")"}, true
			}
			// keep short-circuit evaluation: the right operand may panic
			v := t.fresh("t")
			pre := append([]string{}, a.pre...)
			pre = append(pre, fmt.Sprintf("let mut %s : Bool := %s", v, a.text))
			cond := v
			if x.Op == token.LOR {
				cond = "!" + v
			}
			pre = append(pre, "if "+cond+" then")
			pre = append(pre, ind(b.pre)...)
			pre = append(pre, "  "+v+" := "+b.text)
			return ex{pre, v}, true
		case token.ADD, token.SUB, token.MUL, token.QUO, token.REM:
			if kx.k != "int" || ky.k != "int" {
				return ex{}, false
			}
			a, ok1 := t.expr(x.X)
			b, ok2 := t.expr(x.Y)
			if !ok1 || !ok2 {
				return ex{}, false
			}
			pre := append(append([]string{}, a.pre...), b.pre...)
			switch x.Op {
			case token.ADD:
				return ex{pre, "(" + a.text + " + " + b.text + ")"}, true
			case token.SUB:
				return ex{pre, "(" + a.text + " - " + b.text + ")"}, true
			case token.MUL:
				return ex{pre, "(" + a.text + " * " + b.text + ")"}, true
			}
			// division: Go panics on a zero divisor
			nonzero := false
			if tv, ok := t.info().Types[x.Y]; ok && tv.Value != nil && tv.Value.Kind() == constant.Int && constant.Sign(tv.Value) != 0 {
				nonzero = true
			}
			if !nonzero {
				pre = append(pre, "if "+b.text+" == 0 then throw Err.panic")
			}
			fn := "Int.tdiv"
			if x.Op == token.REM {
				fn = "Int.tmod"
			}
			return ex{pre, "(" + fn + " " + a.text + " " + b.text + ")"}, true
		case token.LSS, token.LEQ, token.GTR, token.GEQ, token.EQL, token.NEQ:
			if !((kx.k == "int" && ky.k == "int") || (kx.k == "bool" && ky.k == "bool" && (x.Op == token.EQL || x.Op == token.NEQ))) {
				return ex{}, false
			}
			a, ok1 := t.expr(x.X)
			b, ok2 := t.expr(x.Y)
			if !ok1 || !ok2 {
				return ex{}, false
			}
			pre := append(append([]string{}, a.pre...), b.pre...)
			op := map[token.Token]string{token.LSS: "<", token.LEQ: "≤", token.GTR: ">", token.GEQ: "≥", token.EQL: "=", token.NEQ: "≠"}[x.Op]
			return ex{pre, "decide (" + a.text + " " + op + " " + b.text + ")"}, true
		}
		return ex{}, false
	case *ast.SelectorExpr:
		if sel, ok := t.info().Selections[x]; ok && sel.Kind() == types.FieldVal {
			kr := t.ft.kindOf(t.typeOf(x.X))
			if kr.k != "struct" {
				return ex{}, false
			}
			si := t.ft.structs[kr.s]
			if _, ok := si.fkind[x.Sel.Name]; !ok {
				return ex{}, false
			}
			a, ok := t.exprIn(x.X)
			if !ok {
				return ex{}, false
			}
			return ex{a.pre, a.text + "." + lid(x.Sel.Name)}, true
		}
		if s, ok := t.pkgInt(t.info().Uses[x.Sel]); ok {
			return ex{text: s}, true
		}
		return ex{}, false
	case *ast.IndexExpr:
		tn, _, ok := t.tableName(x.X)
		if !ok {
			if t.ft.kindOf(t.typeOf(x.X)).k == "ilist" {
				if l, ok := t.exprIn(x.X); ok {
					tn, ok = l.text, true
					if len(l.pre) > 0 {
						return ex{}, false
					}
				}
			}
		}
		if tn == "" {
			return ex{}, false
		}
		if t.ft.kindOf(t.typeOf(x.Index)).k != "int" {
			return ex{}, false
		}
		i, ok := t.expr(x.Index)
		if !ok {
			return ex{}, false
		}
		v := t.fresh("t")
		pre := append(append([]string{}, i.pre...), fmt.Sprintf("let %s ← idx %s %s", v, tn, i.text))
		return ex{pre, v}, true
	case *ast.CallExpr:
		return t.call(x)
	case *ast.StarExpr:
		return t.exprIn(x.X)
	}
	return ex{}, false
}

func (t *tctx) call(x *ast.CallExpr) (ex, bool) {
	// conversions and builtins
	if id, ok := x.Fun.(*ast.Ident); ok {
		if tn, ok := t.info().Uses[id].(*types.TypeName); ok && len(x.Args) == 1 {
			if t.ft.kindOf(tn.Type()).k == "int" && t.ft.kindOf(t.typeOf(x.Args[0])).k == "int" {
				return t.exprIn(x.Args[0])
			}
			if t.ft.kindOf(tn.Type()).k == "int" {
				if r, ok := t.ceilPattern(x.Args[0]); ok {
					return r, true
				}
			}
			return ex{}, false
		}
		if b, ok := t.info().Uses[id].(*types.Builtin); ok {
			switch b.Name() {
			case "len":
				if _, n, ok := t.tableName(x.Args[0]); ok {
					return ex{text: fmt.Sprint(n)}, true
				}
				if n, ok := t.pkgListLen(x.Args[0]); ok {
					return ex{text: fmt.Sprint(n)}, true
				}
				if t.ft.kindOf(t.typeOf(x.Args[0])).k == "ilist" {
					if l, ok := t.exprIn(x.Args[0]); ok && len(l.pre) == 0 {
						return ex{text: "(" + l.text + ".length : Int)"}, true
					}
				}
			case "new":
				k := t.ft.kindOf(t.typeOf(x))
				if k.k == "struct" {
					t.out.notes = append(t.out.notes, "new("+k.s+") modelled as the all-zero struct value (opaque fields, nil-ness and aliasing not modelled)")
					return ex{text: "(default : " + k.s + ")"}, true
				}
			}
			return ex{}, false
		}
	}
	f, recv := t.calleeOf(x)
	if f == nil {
		return ex{}, false
	}
	d, o := t.ft.ensure(f)
	if d == nil || o == nil || !o.ok || len(o.atoms) > 0 || o.mutates != "" || !o.hasRet || o.optRet {
		return ex{}, false
	}
	var pre []string
	var args []string
	if recv != nil {
		if t.ft.kindOf(t.typeOf(recv)).k != "struct" {
			return ex{}, false
		}
		a, ok := t.expr(recv)
		if !ok {
			return ex{}, false
		}
		pre = append(pre, a.pre...)
		args = append(args, a.text)
	}
	if x.Ellipsis != token.NoPos {
		return ex{}, false
	}
	for _, a0 := range x.Args {
		if t.ft.kindOf(t.typeOf(a0)).k == "opaque" {
			// the callee's Lean signature has no parameter for values outside the subset
			t.drop(a0, "argument outside the subset, not passed to "+d.lean)
			continue
		}
		a, ok := t.expr(a0)
		if !ok {
			return ex{}, false
		}
		pre = append(pre, a.pre...)
		args = append(args, a.text)
	}
	if o.needFuel {
		t.out.needFuel = true
		args = append([]string{"fuel"}, args...)
	}
	v := t.fresh("t")
	pre = append(pre, fmt.Sprintf("let %s ← %s %s", v, d.lean, strings.Join(args, " ")))
	return ex{pre, v}, true
}

// pkgInt: a package-level int variable / constant whose initialiser gotrans evaluated (read as its initial value; the
// write facts of Gen.Facts show that nothing assigns these)
func (t *tctx) pkgInt(o types.Object) (string, bool) {
	v, ok := o.(*types.Var)
	if !ok || v.Pkg() == nil || v.Parent() != v.Pkg().Scope() {
		return "", false
	}
	if b, ok := v.Type().(*types.Basic); !ok || b.Kind() != types.Int {
		return "", false
	}
	pk := strings.TrimPrefix(v.Pkg().Path(), modPath)
	pi, ok := t.ft.infos[pk]
	if !ok {
		return "", false
	}
	init, ok := pi.decls[v.Name()]
	if !ok || init == nil {
		return "", false
	}
	val, ok := pi.eval(init, 0)
	if !ok || val.kind != "int" {
		return "", false
	}
	t.out.notes = append(t.out.notes, "package variable "+pk+"."+v.Name()+" read as its initial value")
	return "Gen.Tables." + pk + "." + leanIdent(v.Name()), true
}

// pkgListLen: len() of a package-level slice variable whose literal gotrans evaluated (its initial length)
func (t *tctx) pkgListLen(e ast.Expr) (int, bool) {
	var obj types.Object
	switch x := e.(type) {
	case *ast.Ident:
		obj = t.info().Uses[x]
	case *ast.SelectorExpr:
		obj = t.info().Uses[x.Sel]
	}
	v, ok := obj.(*types.Var)
	if !ok || v.Pkg() == nil || v.Parent() != v.Pkg().Scope() {
		return 0, false
	}
	pk := strings.TrimPrefix(v.Pkg().Path(), modPath)
	pi, ok := t.ft.infos[pk]
	if !ok {
		return 0, false
	}
	init, ok := pi.decls[v.Name()]
	if !ok || init == nil {
		return 0, false
	}
	val, ok := pi.eval(init, 0)
	if !ok || val.kind != "list" {
		return 0, false
	}
	t.out.notes = append(t.out.notes, "len("+pk+"."+v.Name()+") read as the length of its initial value")
	return len(val.list), true
}

// ceilPattern: math.Ceil(float64(E) / C) with int E and a positive integer constant C, under int(...):
// exact in float64 for |E| < 2^50 (E converts exactly; a non-integral quotient is at least 1/C from an integer)
func (t *tctx) ceilPattern(e ast.Expr) (ex, bool) {
	call, ok := e.(*ast.CallExpr)
	if !ok || len(call.Args) != 1 {
		return ex{}, false
	}
	sel, ok := call.Fun.(*ast.SelectorExpr)
	if !ok || sel.Sel.Name != "Ceil" {
		return ex{}, false
	}
	if f, ok := t.info().Uses[sel.Sel].(*types.Func); !ok || f.Pkg() == nil || f.Pkg().Path() != "math" {
		return ex{}, false
	}
	arg := call.Args[0]
	for {
		if p, ok := arg.(*ast.ParenExpr); ok {
			arg = p.X
			continue
		}
		break
	}
	be, ok := arg.(*ast.BinaryExpr)
	if !ok || be.Op != token.QUO {
		return ex{}, false
	}
	tv, ok := t.info().Types[be.Y]
	if !ok || tv.Value == nil {
		return ex{}, false
	}
	c, exact := constant.Int64Val(constant.ToInt(tv.Value))
	if !exact || c <= 0 {
		return ex{}, false
	}
	conv, ok := be.X.(*ast.CallExpr)
	if !ok || len(conv.Args) != 1 {
		return ex{}, false
	}
	if id, ok := conv.Fun.(*ast.Ident); !ok || id.Name != "float64" {
		return ex{}, false
	}
	if t.ft.kindOf(t.typeOf(conv.Args[0])).k != "int" {
		return ex{}, false
	}
	a, ok := t.expr(conv.Args[0])
	if !ok {
		return ex{}, false
	}
	t.out.notes = append(t.out.notes, "int(math.Ceil(float64(E)/"+fmt.Sprint(c)+")) translated as the exact integer ceiling (valid for |E| < 2^50)")
	return ex{a.pre, fmt.Sprintf("(-((-%s) / %d))", a.text, c)}, true
}

// ensure translates a module function on demand (callees of targets); targets are always kept, on-demand functions only
// when they are inside the subset without atoms.
func (ft *fnTrans) ensure(f *types.Func) (*fnDecl, *fnOut) {
	d, ok := ft.allObj[f]
	if !ok {
		return nil, nil
	}
	if o, ok := ft.out[d.key]; ok {
		return d, o
	}
	ft.out[d.key] = &fnOut{reason: "recursive call"}
	o := ft.translate(d)
	ft.out[d.key] = o
	if o.ok && (ft.target[d.key] || len(o.atoms) == 0) {
		ft.emit = append(ft.emit, o.text)
		ft.order = append(ft.order, d)
	} else if o.ok {
		o.ok = false
		o.reason = "on-demand callee outside the pure subset"
	}
	return d, o
}

// ---------------------------------------------------------------- statements

func assignedIn(n ast.Node, info *types.Info) map[types.Object]bool {
	r := map[types.Object]bool{}
	ast.Inspect(n, func(m ast.Node) bool {
		switch s := m.(type) {
		case *ast.AssignStmt:
			for _, l := range s.Lhs {
				if id, ok := l.(*ast.Ident); ok {
					if o := info.Uses[id]; o != nil {
						r[o] = true
					}
					if o := info.Defs[id]; o != nil {
						r[o] = true
					}
				}
			}
		case *ast.IncDecStmt:
			if id, ok := s.X.(*ast.Ident); ok {
				if o := info.Uses[id]; o != nil {
					r[o] = true
				}
			}
		}
		return true
	})
	return r
}

func mentions(e ast.Node, info *types.Info) map[types.Object]bool {
	r := map[types.Object]bool{}
	ast.Inspect(e, func(m ast.Node) bool {
		if id, ok := m.(*ast.Ident); ok {
			if o := info.Uses[id]; o != nil {
				r[o] = true
			}
		}
		return true
	})
	return r
}

func (t *tctx) drop(s ast.Node, why string) {
	pos := t.fset().Position(s.Pos()).Line - t.fset().Position(t.fd.decl.Pos()).Line
	t.out.dropped = append(t.out.dropped, fmt.Sprintf("+%d %s: %s", pos, why, src(t.fset(), s)))
}

// mayWriteTranslated: does the (untranslated) call possibly write a translated field of one of our struct locals?
func (t *tctx) droppedCallSafe(call *ast.CallExpr) bool {
	f, recv := t.calleeOf(call)
	touches := false
	check := func(a ast.Expr) {
		if a == nil {
			return
		}
		if t.ft.kindOf(t.typeOf(a)).k == "struct" {
			touches = true
		}
	}
	check(recv)
	for _, a := range call.Args {
		check(a)
	}
	if !touches {
		return true
	}
	if f == nil {
		return false
	}
	ws := t.ft.writes[f.FullName()]
	for w := range ws {
		parts := strings.SplitN(w, ".", 2)
		if si, ok := t.ft.structs[parts[0]]; ok {
			if _, tr := si.fkind[parts[1]]; tr {
				return false
			}
		}
	}
	return true
}

func (t *tctx) block(list []ast.Stmt) []string {
	var out []string
	for _, s := range list {
		out = append(out, t.stmt(s)...)
		if t.fail != "" {
			return out
		}
	}
	if len(out) == 0 {
		out = append(out, "pure ()")
	}
	return out
}

func (t *tctx) retLine(e *ex) []string {
	var lines []string
	if e != nil {
		lines = append(lines, e.pre...)
	}
	switch {
	case t.out.mutates != "" && e != nil:
		lines = append(lines, "return ("+e.text+", "+t.out.mutates+")")
	case t.out.mutates != "":
		lines = append(lines, "return "+t.out.mutates)
	case e != nil:
		lines = append(lines, "return "+e.text)
	default:
		lines = append(lines, "return ()")
	}
	return lines
}

func (t *tctx) assignTo(lhs ast.Expr, rhsText string, define bool, k kind) []string {
	switch l := lhs.(type) {
	case *ast.Ident:
		if l.Name == "_" {
			return nil
		}
		if define {
			if o := t.info().Defs[l]; o != nil {
				t.locals[o] = k
				return []string{fmt.Sprintf("let mut %s : %s := %s", lid(l.Name), k.lean(), rhsText)}
			}
		}
		o := t.info().Uses[l]
		if o == nil {
			o = t.info().Defs[l]
		}
		if _, ok := t.locals[o]; !ok {
			t.failf("assignment to untranslated variable %s", l.Name)
			return nil
		}
		return []string{fmt.Sprintf("%s := %s", lid(l.Name), rhsText)}
	case *ast.SelectorExpr:
		// x.f = e on a struct local
		base, ok := l.X.(*ast.Ident)
		if !ok {
			t.failf("field write through a non-variable: %s", src(t.fset(), lhs))
			return nil
		}
		o := t.info().Uses[base]
		bk, ok := t.locals[o]
		if !ok || bk.k != "struct" {
			t.failf("field write on untranslated variable: %s", src(t.fset(), lhs))
			return nil
		}
		if _, ok := t.ft.structs[bk.s].fkind[l.Sel.Name]; !ok {
			t.failf("write to an opaque field as a translated value: %s", src(t.fset(), lhs))
			return nil
		}
		return []string{fmt.Sprintf("%s := { %s with %s := %s }", lid(base.Name), lid(base.Name), lid(l.Sel.Name), rhsText)}
	}
	t.failf("unsupported assignment target %s", src(t.fset(), lhs))
	return nil
}

func (t *tctx) lhsKind(lhs ast.Expr) kind {
	if id, ok := lhs.(*ast.Ident); ok {
		if id.Name == "_" {
			return kind{k: "opaque"}
		}
		if o := t.info().Defs[id]; o != nil {
			return t.ft.kindOf(o.Type())
		}
		if o := t.info().Uses[id]; o != nil {
			return t.ft.kindOf(o.Type())
		}
	}
	if sel, ok := lhs.(*ast.SelectorExpr); ok {
		if s, ok := t.info().Selections[sel]; ok && s.Kind() == types.FieldVal {
			kr := t.ft.kindOf(t.typeOf(sel.X))
			if kr.k == "struct" {
				if fk, ok := t.ft.structs[kr.s].fkind[sel.Sel.Name]; ok {
					return fk
				}
			}
			return kind{k: "opaque"}
		}
	}
	return t.ft.kindOf(t.typeOf(lhs))
}

func (t *tctx) stmt(s ast.Stmt) []string {
	switch x := s.(type) {
	case *ast.EmptyStmt:
		return nil
	case *ast.BlockStmt:
		return append([]string{"do"}, ind(t.block(x.List))...)
	case *ast.DeclStmt:
		gd, ok := x.Decl.(*ast.GenDecl)
		if !ok || gd.Tok != token.VAR {
			t.failf("unsupported declaration")
			return nil
		}
		var out []string
		for _, sp := range gd.Specs {
			vs := sp.(*ast.ValueSpec)
			for i, n := range vs.Names {
				o := t.info().Defs[n]
				k := t.ft.kindOf(o.Type())
				if k.k == "opaque" {
					t.drop(x, "declaration of a value outside the subset")
					continue
				}
				if i < len(vs.Values) {
					e, ok := t.expr(vs.Values[i])
					if !ok {
						t.failf("unsupported initialiser %s", src(t.fset(), vs.Values[i]))
						return nil
					}
					out = append(out, e.pre...)
					t.locals[o] = k
					out = append(out, fmt.Sprintf("let mut %s : %s := %s", lid(n.Name), k.lean(), e.text))
				} else {
					t.locals[o] = k
					zero := map[string]string{"int": "0", "bool": "false"}[k.k]
					if k.k == "struct" {
						zero = "default"
						t.out.notes = append(t.out.notes, "var "+n.Name+" *"+k.s+" (nil) modelled as the all-zero struct value")
					}
					out = append(out, fmt.Sprintf("let mut %s : %s := %s", lid(n.Name), k.lean(), zero))
				}
			}
		}
		return out
	case *ast.AssignStmt:
		if len(x.Lhs) != len(x.Rhs) {
			// v, ok := m[k] and friends
			for _, l := range x.Lhs {
				if t.lhsKind(l).k != "opaque" {
					if id, ok := l.(*ast.Ident); !ok || id.Name != "_" {
						t.failf("multi-value assignment into a translated variable: %s", src(t.fset(), x))
						return nil
					}
				}
			}
			t.drop(x, "assignment outside the subset")
			return nil
		}
		if len(x.Lhs) > 1 {
			t.failf("parallel assignment: %s", src(t.fset(), x))
			return nil
		}
		lhs, rhs := x.Lhs[0], x.Rhs[0]
		k := t.lhsKind(lhs)
		if k.k == "opaque" {
			// value outside the subset; the right side may still hide a translated call that can panic: not modelled
			if ce, ok := rhs.(*ast.CallExpr); ok && !t.droppedCallSafe(ce) {
				t.failf("dropped call may write translated state: %s", src(t.fset(), x))
				return nil
			}
			t.drop(x, "assignment outside the subset")
			return nil
		}
		switch x.Tok {
		case token.DEFINE, token.ASSIGN:
			if id, ok := rhs.(*ast.Ident); ok && id.Name == "nil" && k.k == "struct" {
				t.out.notes = append(t.out.notes, "nil assigned to a *"+k.s+" variable modelled as the all-zero struct value")
				return t.assignTo(lhs, "default", x.Tok == token.DEFINE, k)
			}
			e, ok := t.expr(rhs)
			if !ok {
				t.failf("unsupported right side %s", src(t.fset(), rhs))
				return nil
			}
			return append(e.pre, t.assignTo(lhs, e.text, x.Tok == token.DEFINE, k)...)
		case token.ADD_ASSIGN, token.SUB_ASSIGN, token.MUL_ASSIGN, token.QUO_ASSIGN, token.REM_ASSIGN:
			op := map[token.Token]token.Token{token.ADD_ASSIGN: token.ADD, token.SUB_ASSIGN: token.SUB, token.MUL_ASSIGN: token.MUL, token.QUO_ASSIGN: token.QUO, token.REM_ASSIGN: token.REM}[x.Tok]
			be := &ast.BinaryExpr{X: lhs, Op: op, Y: rhs}
			// type info for the synthetic node: evaluate pieces separately
			a, ok1 := t.expr(lhs)
			b, ok2 := t.expr(rhs)
			if !ok1 || !ok2 || k.k != "int" {
				t.failf("unsupported compound assignment %s", src(t.fset(), x))
				return nil
			}
			_ = be
			pre := append(append([]string{}, a.pre...), b.pre...)
			var text string
			switch op {
			case token.ADD:
				text = "(" + a.text + " + " + b.text + ")"
			case token.SUB:
				text = "(" + a.text + " - " + b.text + ")"
			case token.MUL:
				text = "(" + a.text + " * " + b.text + ")"
			default:
				nonzero := false
				if tv, ok := t.info().Types[rhs]; ok && tv.Value != nil && tv.Value.Kind() == constant.Int && constant.Sign(tv.Value) != 0 {
					nonzero = true
				}
				if !nonzero {
					pre = append(pre, "if "+b.text+" == 0 then throw Err.panic")
				}
				fn := "Int.tdiv"
				if op == token.REM {
					fn = "Int.tmod"
				}
				text = "(" + fn + " " + a.text + " " + b.text + ")"
			}
			return append(pre, t.assignTo(lhs, text, false, k)...)
		}
		t.failf("unsupported assignment operator in %s", src(t.fset(), x))
		return nil
	case *ast.IncDecStmt:
		k := t.lhsKind(x.X)
		if k.k != "int" {
			t.failf("++/-- on a value outside the subset: %s", src(t.fset(), x))
			return nil
		}
		a, ok := t.expr(x.X)
		if !ok {
			t.failf("unsupported ++/-- operand")
			return nil
		}
		op := "+"
		if x.Tok == token.DEC {
			op = "-"
		}
		return append(a.pre, t.assignTo(x.X, "("+a.text+" "+op+" 1)", false, k)...)
	case *ast.ExprStmt:
		call, ok := x.X.(*ast.CallExpr)
		if !ok {
			t.failf("unsupported expression statement")
			return nil
		}
		if id, ok := call.Fun.(*ast.Ident); ok {
			if b, ok := t.info().Uses[id].(*types.Builtin); ok && b.Name() == "panic" {
				return []string{"throw Err.panic"}
			}
		}
		f, _ := t.calleeOf(call)
		if f != nil {
			if d, o := t.ft.ensure(f); d != nil {
				if o != nil && o.ok && len(o.atoms) == 0 {
					if o.mutates != "" && !o.hasRet && len(call.Args) >= 1 {
						// f(p, ...) with p updated
						return t.mutCall(call, d, o)
					}
					if o.mutates == "" {
						e, ok := t.call(call)
						if ok {
							return e.pre
						}
					}
				}
			}
		}
		if !t.droppedCallSafe(call) {
			t.failf("dropped call may write translated state: %s", src(t.fset(), x))
			return nil
		}
		t.drop(x, "call outside the subset")
		return nil
	case *ast.ReturnStmt:
		if len(x.Results) == 0 {
			return t.retLine(nil)
		}
		if len(x.Results) > 1 {
			t.failf("multiple results")
			return nil
		}
		if id, ok := x.Results[0].(*ast.Ident); ok && id.Name == "nil" && t.out.optRet {
			e := ex{text: "none"}
			return t.retLine(&e)
		}
		e, ok := t.expr(x.Results[0])
		if !ok {
			t.failf("unsupported result %s", src(t.fset(), x.Results[0]))
			return nil
		}
		if t.out.optRet {
			e.text = "(some " + e.text + ")"
		}
		return t.retLine(&e)
	case *ast.IfStmt:
		if x.Init != nil {
			t.failf("if with init statement: %s", src(t.fset(), x.Init))
			return nil
		}
		c, ok := t.expr(x.Cond)
		if !ok {
			t.failf("unsupported condition %s", src(t.fset(), x.Cond))
			return nil
		}
		out := append([]string{}, c.pre...)
		out = append(out, "if "+c.text+" then")
		out = append(out, ind(t.block(x.Body.List))...)
		if x.Else != nil {
			out = append(out, "else")
			switch e := x.Else.(type) {
			case *ast.BlockStmt:
				out = append(out, ind(t.block(e.List))...)
			default:
				out = append(out, ind(t.stmt(e))...)
			}
		}
		return out
	case *ast.BranchStmt:
		if x.Label != nil || t.inLoop == 0 {
			t.failf("unsupported branch statement")
			return nil
		}
		switch x.Tok {
		case token.BREAK:
			return []string{"break"}
		case token.CONTINUE:
			return []string{"continue"}
		}
		t.failf("unsupported branch statement")
		return nil
	case *ast.ForStmt:
		return t.forStmt(x)
	case *ast.SwitchStmt:
		return t.switchStmt(x)
	}
	t.failf("unsupported statement %T", s)
	return nil
}

// switchStmt: `switch tag { case a, b: ... default: ... }` without fallthrough becomes an if-else chain; a trailing `break`
// of a case body is dropped, any other `break` directly inside the switch is not supported.
func (t *tctx) switchStmt(x *ast.SwitchStmt) []string {
	if x.Init != nil {
		t.failf("switch with init statement")
		return nil
	}
	var out []string
	tag := ""
	if x.Tag != nil {
		if t.ft.kindOf(t.typeOf(x.Tag)).k != "int" {
			t.failf("switch on a value outside the subset: %s", src(t.fset(), x.Tag))
			return nil
		}
		e, ok := t.expr(x.Tag)
		if !ok {
			t.failf("unsupported switch tag")
			return nil
		}
		out = append(out, e.pre...)
		tag = t.fresh("sw")
		out = append(out, fmt.Sprintf("let %s : Int := %s", tag, e.text))
	}
	var def *ast.CaseClause
	type arm struct {
		cond string
		body []string
	}
	var arms []arm
	for _, c0 := range x.Body.List {
		cc := c0.(*ast.CaseClause)
		body := cc.Body
		if n := len(body); n > 0 {
			if b, ok := body[n-1].(*ast.BranchStmt); ok && b.Tok == token.BREAK && b.Label == nil {
				body = body[:n-1]
			}
		}
		bad := false
		for _, st := range body {
			ast.Inspect(st, func(n ast.Node) bool {
				switch m := n.(type) {
				case *ast.ForStmt, *ast.RangeStmt, *ast.SwitchStmt:
					return false
				case *ast.BranchStmt:
					if m.Tok == token.BREAK || m.Tok == token.FALLTHROUGH {
						bad = true
					}
				}
				return true
			})
		}
		if bad {
			t.failf("break / fallthrough inside a switch case")
			return nil
		}
		if cc.List == nil {
			def = &ast.CaseClause{Body: body}
			continue
		}
		var conds []string
		for _, ce := range cc.List {
			e, ok := t.expr(ce)
			if !ok || len(e.pre) > 0 {
				t.failf("unsupported case expression %s", src(t.fset(), ce))
				return nil
			}
			if tag != "" {
				conds = append(conds, "decide ("+tag+" = "+e.text+")")
			} else {
				conds = append(conds, e.text)
			}
		}
		arms = append(arms, arm{"(" + strings.Join(conds, " || ") + ")", t.block(body)})
	}
	var defBody []string
	if def != nil {
		defBody = t.block(def.Body)
	}
	// nest
	var build func(i int) []string
	build = func(i int) []string {
		if i == len(arms) {
			if def == nil {
				return []string{"pure ()"}
			}
			return defBody
		}
		r := []string{"if " + arms[i].cond + " then"}
		r = append(r, ind(arms[i].body)...)
		r = append(r, "else")
		r = append(r, ind(build(i+1))...)
		return r
	}
	return append(out, build(0)...)
}

func (t *tctx) mutCall(call *ast.CallExpr, d *fnDecl, o *fnOut) []string {
	var pre, args []string
	target := ""
	// which parameter index is mutated
	sig := d.obj.Type().(*types.Signature)
	for i, a0 := range call.Args {
		a, ok := t.expr(a0)
		if !ok {
			t.failf("unsupported argument %s", src(t.fset(), a0))
			return nil
		}
		pre = append(pre, a.pre...)
		args = append(args, a.text)
		if lid(sig.Params().At(i).Name()) == o.mutates {
			id, ok := a0.(*ast.Ident)
			if !ok {
				t.failf("mutated argument is not a variable: %s", src(t.fset(), a0))
				return nil
			}
			target = lid(id.Name)
		}
	}
	if target == "" {
		t.failf("mutating call without a variable target")
		return nil
	}
	if o.needFuel {
		t.out.needFuel = true
		args = append([]string{"fuel"}, args...)
	}
	return append(pre, fmt.Sprintf("%s ← %s %s", target, d.lean, strings.Join(args, " ")))
}

func (t *tctx) forStmt(x *ast.ForStmt) []string {
	info := t.info()
	// counted loop: for i := a; i < b; i += c
	if as, ok := x.Init.(*ast.AssignStmt); ok && as.Tok == token.DEFINE && len(as.Lhs) == 1 && x.Cond != nil && x.Post != nil {
		iv, _ := as.Lhs[0].(*ast.Ident)
		cond, okc := x.Cond.(*ast.BinaryExpr)
		if iv != nil && okc && (cond.Op == token.LSS || cond.Op == token.LEQ) {
			cl, _ := cond.X.(*ast.Ident)
			io := info.Defs[iv]
			step := int64(0)
			switch p := x.Post.(type) {
			case *ast.IncDecStmt:
				if id, ok := p.X.(*ast.Ident); ok && info.Uses[id] == io && p.Tok == token.INC {
					step = 1
				}
			case *ast.AssignStmt:
				if id, ok := p.Lhs[0].(*ast.Ident); ok && info.Uses[id] == io && p.Tok == token.ADD_ASSIGN {
					if tv, ok := info.Types[p.Rhs[0]]; ok && tv.Value != nil {
						if v, ok := constant.Int64Val(tv.Value); ok && v > 0 {
							step = v
						}
					}
				}
			}
			if cl != nil && info.Uses[cl] == io && step > 0 && t.ft.kindOf(io.Type()).k == "int" {
				asg := assignedIn(x.Body, info)
				bad := asg[io]
				for o := range mentions(cond.Y, info) {
					if asg[o] {
						bad = true
					}
				}
				a, ok1 := t.expr(as.Rhs[0])
				b, ok2 := t.expr(cond.Y)
				if !bad && ok1 && ok2 && len(b.pre) == 0 {
					hi := b.text
					if cond.Op == token.LEQ {
						hi = "(" + hi + " + 1)"
					}
					k := t.fresh("k")
					var out []string
					out = append(out, a.pre...)
					lo := t.fresh("lo")
					out = append(out, fmt.Sprintf("let %s : Int := %s", lo, a.text))
					out = append(out, fmt.Sprintf("for %s in [0:((%s - %s + %d) / %d).toNat] do", k, hi, lo, step-1, step))
					t.locals[io] = kind{k: "int"}
					body := []string{fmt.Sprintf("let %s : Int := %s + %d * (%s : Int)", lid(iv.Name), lo, step, k)}
					t.loopCtr = append(t.loopCtr, lid(iv.Name))
					t.inLoop++
					body = append(body, t.block(x.Body.List)...)
					t.inLoop--
					t.loopCtr = t.loopCtr[:len(t.loopCtr)-1]
					return append(out, ind(body)...)
				}
			}
		}
	}
	// for cond { } : fuel-bounded
	if x.Init == nil && x.Post == nil && x.Cond != nil {
		t.out.needFuel = true
		k := t.fresh("k")
		done := t.fresh("done")
		var out []string
		out = append(out, fmt.Sprintf("let mut %s : Bool := false", done))
		out = append(out, fmt.Sprintf("for %s in [0:fuel] do", k))
		kc := "(" + k + " : Int)"
		t.loopCtr = append(t.loopCtr, kc)
		t.inLoop++
		c, ok := t.expr(x.Cond)
		if !ok {
			t.failf("unsupported loop condition %s", src(t.fset(), x.Cond))
			return nil
		}
		body := append([]string{}, c.pre...)
		body = append(body, "if !"+c.text+" then", "  "+done+" := true", "  break")
		// a `break` of the Go loop also leaves with the loop finished
		inner := t.block(x.Body.List)
		for i, l := range inner {
			if strings.TrimSpace(l) == "break" {
				pad := l[:len(l)-len(strings.TrimLeft(l, " "))]
				inner[i] = pad + done + " := true\n" + "      " + pad + "break"
			}
		}
		body = append(body, inner...)
		t.inLoop--
		t.loopCtr = t.loopCtr[:len(t.loopCtr)-1]
		out = append(out, ind(body)...)
		// out of fuel: one more evaluation of the condition decides
		out = append(out, "if !"+done+" then")
		c2, _ := t.expr(x.Cond)
		_ = c2
		out = append(out, "  throw Err.fuel")
		return out
	}
	t.failf("unsupported loop shape: %s", src(t.fset(), x.Cond))
	return nil
}

// ---------------------------------------------------------------- driver

func (ft *fnTrans) translate(d *fnDecl) *fnOut {
	o := &fnOut{}
	t := &tctx{ft: ft, fd: d, out: o, locals: map[types.Object]kind{}}
	sig := d.obj.Type().(*types.Signature)
	var params []string
	addParam := func(v *types.Var, name string) bool {
		k := ft.kindOf(v.Type())
		if k.k == "opaque" {
			o.notes = append(o.notes, "parameter "+name+" "+typeStr(v.Type())+" is outside the subset (not passed)")
			return true
		}
		t.locals[v] = k
		params = append(params, fmt.Sprintf("(%s : %s)", lid(name), k.lean()))
		o.params = append(o.params, lid(name))
		return true
	}
	if sig.Recv() != nil {
		addParam(sig.Recv(), sig.Recv().Name())
	}
	for i := 0; i < sig.Params().Len(); i++ {
		addParam(sig.Params().At(i), sig.Params().At(i).Name())
	}
	// result
	switch sig.Results().Len() {
	case 0:
	case 1:
		o.retKind = ft.kindOf(sig.Results().At(0).Type())
		if o.retKind.k == "opaque" {
			o.reason = "result type " + typeStr(sig.Results().At(0).Type()) + " outside the subset"
			return o
		}
		o.hasRet = true
		if o.retKind.k == "struct" {
			ast.Inspect(d.decl.Body, func(n ast.Node) bool {
				if r, ok := n.(*ast.ReturnStmt); ok && len(r.Results) == 1 {
					if id, ok := r.Results[0].(*ast.Ident); ok && id.Name == "nil" {
						o.optRet = true
					}
				}
				return true
			})
		}
	default:
		o.reason = "multiple results"
		return o
	}
	// mutated pointer parameter: a struct parameter with a translated field written in the body
	var mut types.Object
	ast.Inspect(d.decl.Body, func(n ast.Node) bool {
		var lhs []ast.Expr
		switch s := n.(type) {
		case *ast.AssignStmt:
			lhs = s.Lhs
		case *ast.IncDecStmt:
			lhs = []ast.Expr{s.X}
		}
		for _, l := range lhs {
			if sel, ok := l.(*ast.SelectorExpr); ok {
				if id, ok := sel.X.(*ast.Ident); ok {
					ob := d.c.info.Uses[id]
					if k, ok := t.locals[ob]; ok && k.k == "struct" {
						if isParamOf(sig, ob) {
							if _, tr := ft.structs[k.s].fkind[sel.Sel.Name]; tr {
								if mut != nil && mut != ob {
									t.failf("two mutated struct parameters")
								}
								mut = ob
							}
						}
					}
				}
			}
		}
		return true
	})
	if mut != nil {
		o.mutates = lid(mut.Name())
		t.mutParam = mut
	}
	var body []string
	asg := assignedIn(d.decl.Body, d.c.info)
	for ob := range t.locals {
		if asg[ob] || ob == mut {
			body = append(body, fmt.Sprintf("let mut %s := %s", lid(ob.Name()), lid(ob.Name())))
		}
	}
	sort.Strings(body)
	body = append(body, t.block(d.decl.Body.List)...)
	// falling off the end
	if !terminates(d.decl.Body.List) {
		if !o.hasRet {
			body = append(body, t.retLine(nil)...)
		} else {
			body = append(body, "throw Err.panic")
		}
	}
	if t.fail != "" {
		o.reason = t.fail
		return o
	}
	ret := "Unit"
	switch {
	case o.mutates != "" && o.hasRet:
		ret = "(" + o.retKind.lean() + " × " + t.locals[mut].lean() + ")"
	case o.mutates != "":
		ret = t.locals[mut].lean()
	case o.hasRet:
		ret = o.retKind.lean()
		if o.optRet {
			ret = "(Option " + ret + ")"
		}
	}
	var sb strings.Builder
	fmt.Fprintf(&sb, "/-- %s (%s) -/\ndef %s", d.key, filepath.Base(d.c.p.fset.Position(d.decl.Pos()).Filename), d.lean)
	if o.needFuel {
		sb.WriteString(" (fuel : Nat)")
	}
	for _, a := range o.atoms {
		fmt.Fprintf(&sb, " (%s : %s)", a.name, a.ty)
	}
	for _, p := range params {
		sb.WriteString(" " + p)
	}
	fmt.Fprintf(&sb, " : Except Err %s := do\n", ret)
	for _, l := range body {
		for _, ll := range strings.Split(l, "\n") {
			sb.WriteString("  " + ll + "\n")
		}
	}
	o.text = sb.String()
	o.ok = true
	return o
}

// terminates: the statement list cannot fall off its end (syntactic: return / panic / if-else of such)
func terminates(list []ast.Stmt) bool {
	if len(list) == 0 {
		return false
	}
	switch x := list[len(list)-1].(type) {
	case *ast.ReturnStmt:
		return true
	case *ast.ExprStmt:
		if c, ok := x.X.(*ast.CallExpr); ok {
			if id, ok := c.Fun.(*ast.Ident); ok && id.Name == "panic" {
				return true
			}
		}
	case *ast.BlockStmt:
		return terminates(x.List)
	case *ast.IfStmt:
		if x.Else == nil || !terminates(x.Body.List) {
			return false
		}
		switch e := x.Else.(type) {
		case *ast.BlockStmt:
			return terminates(e.List)
		case *ast.IfStmt:
			return terminates([]ast.Stmt{e})
		}
	}
	return false
}

func isParamOf(sig *types.Signature, ob types.Object) bool {
	if sig.Recv() != nil && types.Object(sig.Recv()) == ob {
		return true
	}
	for i := 0; i < sig.Params().Len(); i++ {
		if types.Object(sig.Params().At(i)) == ob {
			return true
		}
	}
	return false
}

func (ft *fnTrans) computeWrites() {
	direct := map[string]map[string]bool{}
	calls := map[string]map[string]bool{}
	for _, c := range ft.cs {
		for _, file := range c.p.files {
			for _, d := range file.Decls {
				fd, ok := d.(*ast.FuncDecl)
				if !ok || fd.Body == nil {
					continue
				}
				obj, ok := c.info.Defs[fd.Name].(*types.Func)
				if !ok {
					continue
				}
				k := obj.FullName()
				direct[k] = map[string]bool{}
				calls[k] = map[string]bool{}
				ast.Inspect(fd.Body, func(n ast.Node) bool {
					var lhs []ast.Expr
					switch s := n.(type) {
					case *ast.AssignStmt:
						lhs = s.Lhs
					case *ast.IncDecStmt:
						lhs = []ast.Expr{s.X}
					case *ast.CallExpr:
						switch f := s.Fun.(type) {
						case *ast.Ident:
							if o, ok := c.info.Uses[f].(*types.Func); ok {
								calls[k][o.FullName()] = true
							}
						case *ast.SelectorExpr:
							if sel, ok := c.info.Selections[f]; ok {
								if o, ok := sel.Obj().(*types.Func); ok {
									calls[k][o.FullName()] = true
								}
							} else if o, ok := c.info.Uses[f.Sel].(*types.Func); ok {
								calls[k][o.FullName()] = true
							}
						}
					}
					for _, l := range lhs {
						if sel, ok := l.(*ast.SelectorExpr); ok {
							if s, ok := c.info.Selections[sel]; ok && s.Kind() == types.FieldVal {
								rt := s.Recv()
								if pt, ok := rt.(*types.Pointer); ok {
									rt = pt.Elem()
								}
								direct[k][typeStr(rt)+"."+sel.Sel.Name] = true
							}
						}
					}
					return true
				})
			}
		}
	}
	ft.writes = map[string]map[string]bool{}
	for k := range direct {
		seen := map[string]bool{}
		acc := map[string]bool{}
		var walk func(string)
		walk = func(f string) {
			if seen[f] {
				return
			}
			seen[f] = true
			for w := range direct[f] {
				acc[w] = true
			}
			for g := range calls[f] {
				walk(g)
			}
		}
		walk(k)
		ft.writes[k] = acc
	}
}

func writeFn(outDir string, cs map[string]*checked, infos map[string]*pkgInfo) {
	ft := &fnTrans{cs: cs, infos: infos, decls: map[string]*fnDecl{}, byObj: map[*types.Func]*fnDecl{}, out: map[string]*fnOut{}, structs: map[string]*structInfo{},
		allObj: map[*types.Func]*fnDecl{}, target: map[string]bool{}}
	// index all module functions
	for pk, c := range cs {
		for _, file := range c.p.files {
			for _, d := range file.Decls {
				fd, ok := d.(*ast.FuncDecl)
				if !ok || fd.Body == nil {
					continue
				}
				obj, ok := c.info.Defs[fd.Name].(*types.Func)
				if !ok {
					continue
				}
				key := pk + "." + funcName(fd)
				ft.decls[key] = &fnDecl{key: key, pkg: pk, decl: fd, c: c, obj: obj, lean: strings.ReplaceAll(key, ".", "_")}
				ft.allObj[obj] = ft.decls[key]
			}
		}
	}
	ft.computeWrites()
	var targets []*fnDecl
	var skipped [][2]string
	want := map[string]bool{}
	for _, k := range fnTargets {
		d, ok := ft.decls[k]
		if !ok {
			skipped = append(skipped, [2]string{k, "no such function in the current source"})
			continue
		}
		want[k] = true
		targets = append(targets, d)
		ft.byObj[d.obj] = d
	}
	for k := range want {
		ft.target[k] = true
	}
	for _, d := range targets {
		_, o := ft.ensure(d.obj)
		if !o.ok {
			skipped = append(skipped, [2]string{d.key, o.reason})
		}
	}
	order := ft.order
	var defs strings.Builder
	for _, tx := range ft.emit {
		defs.WriteString(tx + "\n")
	}
	var sb strings.Builder
	sb.WriteString("-- GENERATED by gotrans (fntrans.go) from /repo's current source; do not edit.\nimport Gen.Tables\nset_option maxRecDepth 100000\nset_option linter.unusedVariables false\nnamespace Gen.Fn\n\n")
	sb.WriteString("/-- Go panic / out of loop fuel -/\ninductive Err where\n  | panic\n  | fuel\n  deriving Repr, DecidableEq, Inhabited\n\n")
	sb.WriteString("/-- slice index with Go's bounds panic -/\ndef idx (l : List Int) (i : Int) : Except Err Int :=\n  if i < 0 then throw Err.panic else match l[i.toNat]? with\n    | some v => pure v\n    | none => throw Err.panic\n\n")
	for _, sn := range ft.sorder {
		si := ft.structs[sn]
		fmt.Fprintf(&sb, "/-- Go struct %s: its int / bool / nested-struct fields. Not modelled: %s -/\nstructure %s where\n", sn, strings.Join(si.opaque, "; "), sn)
		for _, f := range si.fields {
			fmt.Fprintf(&sb, "  %s\n", f)
		}
		if len(si.fields) == 0 {
			sb.WriteString("  mk ::\n")
		}
		sb.WriteString("  deriving Repr, DecidableEq, Inhabited\n\n")
	}
	sb.WriteString(defs.String())
	// listings
	sb.WriteString("/-- atoms: (function, atom parameter, Lean type, `+line-offset: Go source text`) -/\ndef atoms : List (String × String × String × String) := [\n")
	var rows []string
	for _, d := range order {
		o := ft.out[d.key]
		if !o.ok {
			continue
		}
		for _, a := range o.atoms {
			rows = append(rows, fmt.Sprintf("  (%s, %s, %s, %s)", leanStr(d.key), leanStr(a.name), leanStr(a.ty), leanStr(a.text)))
		}
	}
	sb.WriteString(strings.Join(rows, ",\n") + "\n]\n\n")
	sb.WriteString("/-- statements outside the subset that were not translated: (function, `+line-offset reason: Go source text`) -/\ndef dropped : List (String × String) := [\n")
	rows = nil
	for _, d := range order {
		o := ft.out[d.key]
		if !o.ok {
			continue
		}
		for _, s := range o.dropped {
			rows = append(rows, fmt.Sprintf("  (%s, %s)", leanStr(d.key), leanStr(s)))
		}
	}
	sb.WriteString(strings.Join(rows, ",\n") + "\n]\n\n")
	sb.WriteString("/-- modelling notes per function -/\ndef notes : List (String × String) := [\n")
	rows = nil
	for _, d := range order {
		o := ft.out[d.key]
		if !o.ok {
			continue
		}
		seen := map[string]bool{}
		for _, s := range o.notes {
			if !seen[s] {
				seen[s] = true
				rows = append(rows, fmt.Sprintf("  (%s, %s)", leanStr(d.key), leanStr(s)))
			}
		}
	}
	sb.WriteString(strings.Join(rows, ",\n") + "\n]\n\n")
	sb.WriteString("/-- translated functions, in definition order -/\ndef translated : List String := [")
	var names []string
	for _, d := range order {
		if ft.out[d.key].ok {
			names = append(names, leanStr(d.key))
		}
	}
	sb.WriteString(strings.Join(names, ", ") + "]\n\n")
	sb.WriteString("/-- targets that could not be translated (never guessed): (function, reason) -/\ndef skipped : List (String × String) := [\n")
	rows = nil
	sort.Slice(skipped, func(i, j int) bool { return skipped[i][0] < skipped[j][0] })
	for _, s := range skipped {
		rows = append(rows, fmt.Sprintf("  (%s, %s)", leanStr(s[0]), leanStr(s[1])))
	}
	sb.WriteString(strings.Join(rows, ",\n") + "\n]\n\nend Gen.Fn\n")
	if err := os.WriteFile(filepath.Join(outDir, "Fn.lean"), []byte(sb.String()), 0o644); err != nil {
		fmt.Fprintln(os.Stderr, err)
		os.Exit(1)
	}
}
