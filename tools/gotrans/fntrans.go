package main

// fntrans — translator of Go function bodies to Lean (lean/Gen/Fn.lean).
//
// Subset: functions over int / bool values and structs of int / bool (and nested such struct) fields. The integer
// control flow and arithmetic are translated faithfully into Lean `do` blocks in the monad `Except Err`
// (Err.panic = Go panic, Err.fuel = a `for cond {}` loop ran out of the fuel argument):
//   - `/` and `%` become Int.tdiv / Int.tmod (Go truncation), with a panic on a zero divisor;
//   - `a && b` / `a || b` keep short-circuit evaluation when b can panic;
//   - `for i := a; i < b; i += c` (i, b not assigned in the body) becomes a bounded `for` over the exact trip count;
//     `for cond {}` becomes a fuel-bounded loop;
//   - pointer parameters to structs are values; a function that writes int fields of its pointer parameter returns
//     the updated struct. Nil pointers and aliasing are NOT modelled (recorded in `notes`).
// Everything outside the subset is never guessed:
//   - a maximal unsupported sub-expression of type int / bool / known struct becomes an ATOM: a parameter of the
//     Lean function (a function of the enclosing loop counters), whose Go source text is emitted in `atoms`;
//   - a statement that only touches values outside the subset (strings, maps, lists, floats) is DROPPED and its
//     source text is emitted in `dropped`;
//   - anything else makes the whole function SKIPPED with the reason in `skipped`.
// The texts in `atoms` / `dropped` are pinned by kernel-checked expectations on the Lean side, so that an edit to the
// untranslated remainder of a function is noticed as well.

import (
	"bytes"
	"fmt"
	"go/ast"
	"go/constant"
	"go/printer"
	"go/token"
	"go/types"
	"os"
	"path/filepath"
	"sort"
	"strings"
)

// targets: "pkg.Func" or "pkg.Type.Method"
var fnTargets = []string{
	"SolarUtil.IsLeapYear", "SolarUtil.GetDaysOfYear", "SolarUtil.GetDaysOfMonth", "SolarUtil.GetDaysInYear",
	"SolarUtil.IsBefore", "SolarUtil.GetDaysBetween", "SolarUtil.GetWeeksOfMonth",
	"calendar.NewSolar", "calendar.NewSolarFromYmd",
	"calendar.Solar.GetYear", "calendar.Solar.GetMonth", "calendar.Solar.GetDay", "calendar.Solar.GetHour", "calendar.Solar.GetMinute", "calendar.Solar.GetSecond",
	"calendar.Solar.Subtract", "calendar.Solar.SubtractMinute", "calendar.Solar.IsAfter", "calendar.Solar.IsBefore",
	"calendar.Solar.NextYear", "calendar.Solar.NextMonth", "calendar.Solar.NextDay", "calendar.Solar.NextHour", "calendar.Solar.Next",
	"calendar.NewSolarMonthFromYm", "calendar.SolarMonth.GetYear", "calendar.SolarMonth.GetMonth", "calendar.SolarMonth.Next",
	"calendar.NewSolarYearFromYear", "calendar.SolarYear.GetYear", "calendar.SolarYear.Next",
	"calendar.computeYear", "calendar.computeMonth", "calendar.computeDay", "calendar.computeTime", "calendar.computeWeek",
	"calendar.contains",
	"calendar.Lunar.getYearNineStar", "calendar.Lunar.GetMonthNineStarBySect", "calendar.Lunar.GetDayNineStar", "calendar.Lunar.GetTimeNineStar",
	"calendar.LunarTime.GetNineStar", "calendar.NewNineStar",
	"calendar.LunarYear.GetNineStar",
	"calendar.SolarWeek.GetIndex", "calendar.SolarWeek.GetIndexInYear",
	"calendar.Tao.GetYear", "calendar.Foto.GetYear",
	"calendar.Yun.computeStart",
	"calendar.Lunar.GetShuJiu", "calendar.Lunar.GetFu",
	"calendar.Yun.GetStartSolar", "calendar.NewDaYun", "calendar.NewLiuNian", "calendar.NewXiaoYun", "calendar.NewLiuYue",
	"calendar.SolarWeek.Next", "calendar.SolarWeek.GetFirstDay", "calendar.NewSolarWeekFromYmd",
	"calendar.NewSolarHalfYearFromYm", "calendar.SolarHalfYear.GetIndex", "calendar.SolarHalfYear.Next",
	"calendar.NewSolarSeasonFromYm", "calendar.SolarSeason.GetIndex", "calendar.SolarSeason.Next",
	"calendar.Foto.IsDayZhaiSix", "calendar.Foto.IsDayZhaiTen",
}

// targets translated in string mode (Gen/FnS.lean): strings, string tables, Sprintf and range over tables are inside the subset
var fnTargetsS = []string{}

// string-mode functions kept although they have atoms / dropped statements (their listings are pinned like in int mode)
var fnTargetsSKeep = []string{
	"calendar.Lunar.GetFestivals", "calendar.Solar.GetFestivals",
	"calendar.Lunar.GetHou", "calendar.Lunar.GetWuHou", "calendar.Lunar.GetJie", "calendar.Lunar.GetQi",
	"calendar.Tao.IsDaySanHui", "calendar.Tao.IsDaySanYuan", "calendar.Tao.IsDayWuLa", "calendar.Tao.IsDayBaJie",
	"calendar.LiuNian.GetGanZhi", "calendar.LiuYue.GetGanZhi",
}

// the Go string / fmt semantics used by string mode (part of the translator's trusted base)
const strHeader = `/-- %d / %v of an int -/
def fmtD (n : Int) : String := toString n

def padZero (w : Nat) (s : String) : String := String.ofList (List.replicate (w - s.length) '0') ++ s

/-- %0wd: zero padding to width w, the sign counts and comes first -/
def fmtPad (w : Nat) (n : Int) : String :=
  if n < 0 then "-" ++ padZero (w - 1) (toString n.natAbs) else padZero w (toString n.natAbs)

def hexDigits (fuel n : Nat) (acc : List Char) : List Char :=
  match fuel with
  | 0 => acc
  | fuel + 1 =>
    let d := n % 16
    let c := if d < 10 then Char.ofNat (48 + d) else Char.ofNat (87 + d)
    if n / 16 = 0 then c :: acc else hexDigits fuel (n / 16) (c :: acc)

/-- %x of an int (lower case, sign first) -/
def fmtX (n : Int) : String :=
  (if n < 0 then "-" else "") ++ String.ofList (hexDigits (n.natAbs + 1) n.natAbs [])

/-- strings.Compare: byte-wise lexicographic order = code point order of valid UTF-8 -/
def strCompare (a b : String) : Int := if a < b then -1 else if a = b then 0 else 1

/-- []string index with Go's bounds panic -/
def sidx (l : List String) (i : Int) : Except Err String :=
  if i < 0 then throw Err.panic else match l[i.toNat]? with
    | some v => pure v
    | none => throw Err.panic

/-- map[string]string read: the zero value for a missing key -/
def mlookupS (m : List (String × String)) (k : String) : String :=
  match m.find? (fun p => p.1 == k) with
  | some p => p.2
  | none => ""

def mlookupI (m : List (String × Int)) (k : String) : Int :=
  match m.find? (fun p => p.1 == k) with
  | some p => p.2
  | none => 0

def mhas {α : Type} (m : List (String × α)) (k : String) : Bool := m.any (fun p => p.1 == k)

def strLen (s : String) : Int := (s.utf8ByteSize : Int)

/-- s[a:b] on byte offsets with Go's bounds panic; a cut inside a multi-byte character (which Go allows, yielding an invalid
string) is NOT modelled and reported as a panic -/
def strSlice (s : String) (a b : Int) : Except Err String :=
  if a < 0 ∨ b < a ∨ strLen s < b then throw Err.panic
  else match String.fromUTF8? (s.toUTF8.extract a.toNat b.toNat) with
    | some r => pure r
    | none => throw Err.panic

/-- strings.Index: byte offset of the first occurrence, -1 when absent -/
def strIndex (s sub : String) : Int :=
  if sub.isEmpty then 0 else
  match s.splitOn sub with
  | [] => -1
  | [_] => -1
  | h :: _ => strLen h

def strToUpper (s : String) : String := String.ofList (s.toList.map Char.toUpper)

/-- strings.Replace(s, old, new, n): n < 0 replaces every occurrence, otherwise the first n (old must be non-empty) -/
def strReplace (s old new : String) (n : Int) : String :=
  if old.isEmpty then s else
  let parts := s.splitOn old
  let k := if n < 0 then parts.length else n.toNat
  let rec go : List String → Nat → String
    | [], _ => ""
    | [p], _ => p
    | p :: q :: rest, c => if c = 0 then p ++ old ++ go (q :: rest) 0 else p ++ new ++ go (q :: rest) (c - 1)
  go parts k

def digitVal (c : Char) : Option Nat :=
  if '0' ≤ c ∧ c ≤ '9' then some (c.toNat - 48)
  else if 'a' ≤ c ∧ c ≤ 'z' then some (c.toNat - 87)
  else if 'A' ≤ c ∧ c ≤ 'Z' then some (c.toNat - 55)
  else none

/-- strconv.ParseInt(s, base, _) with the error dropped: 0 on a syntax error (optional sign, at least one digit, no underscores) -/
def parseIntBase (base : Nat) (s : String) : Int :=
  let (neg, ds) := match s.toList with
    | '-' :: r => (true, r)
    | '+' :: r => (false, r)
    | r => (false, r)
  if ds.isEmpty then 0 else
  match ds.foldl (fun acc c => match acc, digitVal c with
      | some a, some d => if d < base then some (a * base + d) else none
      | _, _ => none) (some 0) with
  | some v => if neg then -(v : Int) else (v : Int)
  | none => 0

/-- []rune slicing and indexing with Go's bounds panics; a rune is its code point -/
def runesSlice (r : List Char) (a b : Int) : Except Err (List Char) :=
  if a < 0 ∨ b < a ∨ (r.length : Int) < b then throw Err.panic else pure ((r.drop a.toNat).take (b.toNat - a.toNat))

def runeAt (r : List Char) (i : Int) : Except Err Int :=
  if i < 0 then throw Err.panic else match r[i.toNat]? with
    | some c => pure (c.toNat : Int)
    | none => throw Err.panic

def strContains (s sub : String) : Bool := sub.isEmpty || (s.splitOn sub).length > 1
def strHasPrefix (s p : String) : Bool := p.toList.isPrefixOf s.toList
def strHasSuffix (s p : String) : Bool := p.toList.isSuffixOf s.toList

`

type kind struct {
	k string // "int","bool","struct","opaque"
	s string // struct name (package-less; all in calendar) for k=="struct"
}

func (k kind) lean() string {
	switch k.k {
	case "int":
		return "Int"
	case "bool":
		return "Bool"
	case "struct":
		return k.s
	case "ilist":
		return "(List Int)"
	case "string":
		return "String"
	case "slist":
		return "(List String)"
	case "runes":
		return "(List Char)"
	}
	return "?"
}

type fnDecl struct {
	key   string // "pkg.Func" / "pkg.Type.Method"
	pkg   string
	decl  *ast.FuncDecl
	c     *checked
	obj   *types.Func
	lean  string
	calls map[string]bool // keys of module functions called (syntactically)
}

type atomInfo struct {
	name, ty, text string
}

type fnOut struct {
	ok       bool
	reason   string
	text     string
	atoms    []atomInfo
	dropped  []string
	notes    []string
	needFuel bool
	mutates  string // name of the struct param returned updated ("" if none)
	retKind  kind
	hasRet   bool
	optRet   bool     // pointer-to-struct result that may be nil: Option
	params   []string // lean param names in order (without fuel/atoms)
}

type structInfo struct {
	name   string
	fields []string // lean field decls in order
	fkind  map[string]kind
	opaque []string
}

type fnTrans struct {
	cs      map[string]*checked
	infos   map[string]*pkgInfo
	decls   map[string]*fnDecl // by key
	byObj   map[*types.Func]*fnDecl
	out     map[string]*fnOut
	structs map[string]*structInfo
	sorder  []string
	writes  map[string]map[string]bool // fn full name -> Type.field written transitively
	allObj  map[*types.Func]*fnDecl
	strMode bool   // strings (and string tables, Sprintf, range over tables) are inside the subset
	ns      string // Lean namespace of the output
	target  map[string]bool
	emit    []string
	order   []*fnDecl
}

var leanKeywords = map[string]bool{"as": true, "at": true, "end": true, "from": true, "do": true, "then": true, "else": true, "if": true, "let": true,
	"have": true, "show": true, "fun": true, "by": true, "in": true, "open": true, "def": true, "theorem": true, "where": true, "with": true,
	"match": true, "for": true, "return": true, "mut": true, "instance": true, "structure": true, "class": true, "namespace": true,
	"section": true, "variable": true, "universe": true, "import": true, "export": true, "private": true, "protected": true,
	"partial": true, "unsafe": true, "deriving": true, "extends": true, "macro": true, "syntax": true, "Type": true, "Prop": true,
	"Sort": true, "using": true, "at_": true, "this": true, "true": true, "false": true, "fuel": true, "break": true, "continue": true,
	"try": true, "catch": true, "finally": true, "throw": true, "unless": true, "calc": true, "obtain": true, "suffices": true, "nomatch": true, "exact": true}

func lid(s string) string {
	if leanKeywords[s] {
		return "«" + s + "»"
	}
	return s
}

func src(fset *token.FileSet, n ast.Node) string {
	var b bytes.Buffer
	printer.Fprint(&b, fset, n)
	s := b.String()
	s = strings.Join(strings.Fields(s), " ")
	return s
}

func (ft *fnTrans) kindOf(t types.Type) kind {
	if t == nil {
		return kind{k: "opaque"}
	}
	if p, ok := t.(*types.Pointer); ok {
		t = p.Elem()
	}
	switch u := t.(type) {
	case *types.Slice:
		if b, ok := u.Elem().(*types.Basic); ok && b.Kind() == types.Int {
			return kind{k: "ilist"}
		}
		if b, ok := u.Elem().(*types.Basic); ok && b.Kind() == types.Int32 && ft.strMode {
			return kind{k: "runes"}
		}
	case *types.Basic:
		switch u.Kind() {
		case types.Int, types.UntypedInt:
			return kind{k: "int"}
		case types.Int64, types.Int32, types.UntypedRune:
			if ft.strMode {
				return kind{k: "int"} // fixed-width ints are unbounded Int too (noted in the header)
			}
		case types.Bool, types.UntypedBool:
			return kind{k: "bool"}
		case types.String, types.UntypedString:
			if ft.strMode {
				return kind{k: "string"}
			}
		}
	case *types.Named:
		if ft.strMode && u.Obj().Pkg() != nil && u.Obj().Pkg().Path() == "container/list" && u.Obj().Name() == "List" {
			return kind{k: "slist"}
		}
		if _, ok := u.Underlying().(*types.Struct); ok && u.Obj().Pkg() != nil && strings.HasPrefix(u.Obj().Pkg().Path(), modPath) {
			if ft.structFor(u) != nil {
				return kind{k: "struct", s: u.Obj().Name()}
			}
		}
	}
	return kind{k: "opaque"}
}

// structFor registers the Lean structure for a module struct type: its int / bool / nested-struct fields.
func (ft *fnTrans) structFor(n *types.Named) *structInfo {
	name := n.Obj().Name()
	if si, ok := ft.structs[name]; ok {
		return si
	}
	st := n.Underlying().(*types.Struct)
	si := &structInfo{name: name, fkind: map[string]kind{}}
	ft.structs[name] = si // registered first: recursive types see themselves (and get the field as opaque below)
	for i := 0; i < st.NumFields(); i++ {
		f := st.Field(i)
		ft0 := f.Type()
		if p, ok := ft0.(*types.Pointer); ok {
			ft0 = p.Elem()
		}
		var k kind
		if ft.strMode && name == "Lunar" && f.Name() == "eightChar" {
			// the Lunar <-> EightChar pointer cycle is cut on this side in string mode (EightChar.lunar is kept)
			k = kind{k: "opaque"}
		} else if nn, ok := ft0.(*types.Named); ok && nn.Obj().Name() == name {
			k = kind{k: "opaque"}
		} else if nn, ok := ft0.(*types.Named); ok {
			if _, known := ft.structs[nn.Obj().Name()]; known && !ft.done(nn.Obj().Name()) {
				k = kind{k: "opaque"} // cycle
			} else {
				k = ft.kindOf(f.Type())
			}
		} else {
			k = ft.kindOf(f.Type())
		}
		if k.k == "opaque" || k.k == "slist" || k.k == "runes" || k.k == "ilist" {
			// container/list fields are untyped in Go: not modelled as fields (only as locals / results whose pushes are seen)
			si.opaque = append(si.opaque, f.Name()+" "+typeStr(f.Type()))
			continue
		}
		si.fkind[f.Name()] = k
		si.fields = append(si.fields, fmt.Sprintf("%s : %s", lid(f.Name()), k.lean()))
	}
	ft.sorder = append(ft.sorder, name)
	return si
}

func (ft *fnTrans) done(name string) bool {
	for _, s := range ft.sorder {
		if s == name {
			return true
		}
	}
	return false
}

// ---------------------------------------------------------------- per-function translation

type tctx struct {
	ft       *fnTrans
	fd       *fnDecl
	out      *fnOut
	locals   map[types.Object]kind // translated locals / params
	loopCtr  []string              // lean names (Int-valued) of enclosing loop counters
	tmp      int
	fail     string
	mutParam types.Object
	inLoop   int
	listElem map[types.Object]string // list iteration variable -> Lean name of the current element
	alias    map[types.Object]string // Go variables given a fresh Lean name (if-init scopes that would shadow a mutable variable)
	brk      []string                // per enclosing loop: the "finished" flag a Go `break` must set ("" for counted loops)
}

func (t *tctx) failf(f string, a ...interface{}) {
	if t.fail == "" {
		t.fail = fmt.Sprintf(f, a...)
	}
}

func (t *tctx) fresh(p string) string {
	t.tmp++
	return fmt.Sprintf("%s%d", p, t.tmp)
}

func (t *tctx) info() *types.Info    { return t.fd.c.info }
func (t *tctx) fset() *token.FileSet { return t.fd.c.p.fset }

func (t *tctx) typeOf(e ast.Expr) types.Type {
	if tv, ok := t.info().Types[e]; ok {
		return tv.Type
	}
	if id, ok := e.(*ast.Ident); ok {
		if o := t.info().Uses[id]; o != nil {
			return o.Type()
		}
		if o := t.info().Defs[id]; o != nil {
			return o.Type()
		}
	}
	return nil
}

type ex struct {
	pre  []string
	text string
}

func ind(lines []string) []string {
	r := make([]string, len(lines))
	for i, l := range lines {
		r[i] = "  " + l
	}
	return r
}

// atom: the expression is outside the subset but has a supported type
func (t *tctx) atom(e ast.Expr, k kind) (ex, bool) {
	if k.k == "opaque" {
		return ex{}, false
	}
	name := fmt.Sprintf("a%d", len(t.out.atoms)+1)
	ty := k.lean()
	for range t.loopCtr {
		ty = "Int → " + ty
	}
	t.out.atoms = append(t.out.atoms, atomInfo{name, ty, src(t.fset(), e)})
	text := name
	if len(t.loopCtr) > 0 {
		text = "(" + name + " " + strings.Join(t.loopCtr, " ") + ")"
	}
	return ex{text: text}, true
}

// expr translates e; when it cannot and the type is int/bool/struct it falls back to an atom; ok=false: opaque.
func (t *tctx) expr(e ast.Expr) (ex, bool) {
	k := t.ft.kindOf(t.typeOf(e))
	if r, ok := t.exprIn(e); ok {
		return r, true
	}
	return t.atom(e, k)
}

func litInt(v constant.Value) (string, bool) {
	if v == nil || v.Kind() != constant.Int {
		return "", false
	}
	s := v.ExactString()
	if strings.HasPrefix(s, "-") {
		return "(" + s + ")", true
	}
	return s, true
}

func (t *tctx) tableName(e ast.Expr) (string, int, bool) {
	// package-level []int variable whose literal gotrans evaluated into Gen.Tables
	var obj types.Object
	switch x := e.(type) {
	case *ast.Ident:
		obj = t.info().Uses[x]
	case *ast.SelectorExpr:
		obj = t.info().Uses[x.Sel]
	}
	v, ok := obj.(*types.Var)
	if !ok || v.Pkg() == nil || v.Parent() != v.Pkg().Scope() {
		return "", 0, false
	}
	sl, ok := v.Type().(*types.Slice)
	if !ok {
		return "", 0, false
	}
	if b, ok := sl.Elem().(*types.Basic); !ok || b.Kind() != types.Int {
		return "", 0, false
	}
	pk := strings.TrimPrefix(v.Pkg().Path(), modPath)
	pi, ok := t.ft.infos[pk]
	if !ok {
		return "", 0, false
	}
	init, ok := pi.decls[v.Name()]
	if !ok || init == nil {
		return "", 0, false
	}
	val, ok := pi.eval(init, 0)
	if !ok || val.kind != "list" {
		return "", 0, false
	}
	for _, w := range val.list {
		if w.kind != "int" {
			return "", 0, false
		}
	}
	return "Gen.Tables." + pk + "." + leanIdent(v.Name()), len(val.list), true
}

func (t *tctx) calleeOf(call *ast.CallExpr) (*types.Func, ast.Expr) {
	switch f := call.Fun.(type) {
	case *ast.Ident:
		if o, ok := t.info().Uses[f].(*types.Func); ok {
			return o, nil
		}
	case *ast.SelectorExpr:
		if sel, ok := t.info().Selections[f]; ok {
			if sel.Kind() == types.MethodVal {
				if o, ok := sel.Obj().(*types.Func); ok {
					return o, f.X
				}
			}
			return nil, nil
		}
		if o, ok := t.info().Uses[f.Sel].(*types.Func); ok {
			return o, nil
		}
	}
	return nil, nil
}

func (t *tctx) exprIn(e ast.Expr) (ex, bool) {
	if tv, ok := t.info().Types[e]; ok && tv.Value != nil {
		if s, ok := litInt(tv.Value); ok && t.ft.kindOf(tv.Type).k == "int" {
			return ex{text: s}, true
		}
		if tv.Value.Kind() == constant.Bool {
			return ex{text: fmt.Sprint(constant.BoolVal(tv.Value))}, true
		}
		if tv.Value.Kind() == constant.String && t.ft.strMode {
			return ex{text: leanStr(constant.StringVal(tv.Value))}, true
		}
	}
	switch x := e.(type) {
	case *ast.ParenExpr:
		return t.exprIn(x.X)
	case *ast.Ident:
		if x.Name == "true" || x.Name == "false" {
			return ex{text: x.Name}, true
		}
		o := t.info().Uses[x]
		if a, ok := t.alias[o]; ok {
			return ex{text: a}, true
		}
		if _, ok := t.locals[o]; ok {
			return ex{text: lid(x.Name)}, true
		}
		if s, ok := t.pkgInt(o); ok {
			return ex{text: s}, true
		}
		if s, ok := t.pkgStr(o); ok {
			return ex{text: s}, true
		}
		return ex{}, false
	case *ast.UnaryExpr:
		a, ok := t.exprIn(x.X)
		if !ok {
			return ex{}, false
		}
		switch x.Op {
		case token.SUB:
			return ex{a.pre, "(-" + a.text + ")"}, true
		case token.NOT:
			return ex{a.pre, "(!" + a.text + ")"}, true
		case token.ADD:
			return a, true
		}
		return ex{}, false
	case *ast.BinaryExpr:
		kx := t.ft.kindOf(t.typeOf(x.X))
		ky := t.ft.kindOf(t.typeOf(x.Y))
		switch x.Op {
		case token.LAND, token.LOR:
			a, ok1 := t.expr(x.X)
			b, ok2 := t.expr(x.Y)
			if !ok1 || !ok2 {
				return ex{}, false
			}
			op := "&&"
			if x.Op == token.LOR {
				op = "||"
			}
			if len(b.pre) == 0 {
				return ex{a.pre, "(" + a.text + " " + op + " " + b.text + ")"}, true
			}
			// keep short-circuit evaluation: the right operand may panic
			v := t.fresh("t")
			pre := append([]string{}, a.pre...)
			pre = append(pre, fmt.Sprintf("let mut %s : Bool := %s", v, a.text))
			cond := v
			if x.Op == token.LOR {
				cond = "!" + v
			}
			pre = append(pre, "if "+cond+" then")
			pre = append(pre, ind(b.pre)...)
			pre = append(pre, "  "+v+" := "+b.text)
			return ex{pre, v}, true
		case token.ADD, token.SUB, token.MUL, token.QUO, token.REM:
			if x.Op == token.ADD && kx.k == "string" && ky.k == "string" {
				a, ok1 := t.expr(x.X)
				b, ok2 := t.expr(x.Y)
				if !ok1 || !ok2 {
					return ex{}, false
				}
				return ex{append(append([]string{}, a.pre...), b.pre...), "(" + a.text + " ++ " + b.text + ")"}, true
			}
			if kx.k != "int" || ky.k != "int" {
				return ex{}, false
			}
			a, ok1 := t.expr(x.X)
			b, ok2 := t.expr(x.Y)
			if !ok1 || !ok2 {
				return ex{}, false
			}
			pre := append(append([]string{}, a.pre...), b.pre...)
			switch x.Op {
			case token.ADD:
				return ex{pre, "(" + a.text + " + " + b.text + ")"}, true
			case token.SUB:
				return ex{pre, "(" + a.text + " - " + b.text + ")"}, true
			case token.MUL:
				return ex{pre, "(" + a.text + " * " + b.text + ")"}, true
			}
			// division: Go panics on a zero divisor
			nonzero := false
			if tv, ok := t.info().Types[x.Y]; ok && tv.Value != nil && tv.Value.Kind() == constant.Int && constant.Sign(tv.Value) != 0 {
				nonzero = true
			}
			if !nonzero {
				pre = append(pre, "if "+b.text+" == 0 then throw Err.panic")
			}
			fn := "Int.tdiv"
			if x.Op == token.REM {
				fn = "Int.tmod"
			}
			return ex{pre, "(" + fn + " " + a.text + " " + b.text + ")"}, true
		case token.LSS, token.LEQ, token.GTR, token.GEQ, token.EQL, token.NEQ:
			if kx.k == "string" && ky.k == "string" {
				a, ok1 := t.expr(x.X)
				b, ok2 := t.expr(x.Y)
				if !ok1 || !ok2 {
					return ex{}, false
				}
				pre := append(append([]string{}, a.pre...), b.pre...)
				op := map[token.Token]string{token.LSS: "< 0", token.LEQ: "≤ 0", token.GTR: "> 0", token.GEQ: "≥ 0", token.EQL: "= 0", token.NEQ: "≠ 0"}[x.Op]
				if x.Op == token.EQL {
					return ex{pre, "decide (" + a.text + " = " + b.text + ")"}, true
				}
				if x.Op == token.NEQ {
					return ex{pre, "decide (" + a.text + " ≠ " + b.text + ")"}, true
				}
				return ex{pre, "decide (strCompare " + a.text + " " + b.text + " " + op + ")"}, true
			}
			if !((kx.k == "int" && ky.k == "int") || (kx.k == "bool" && ky.k == "bool" && (x.Op == token.EQL || x.Op == token.NEQ))) {
				return ex{}, false
			}
			a, ok1 := t.expr(x.X)
			b, ok2 := t.expr(x.Y)
			if !ok1 || !ok2 {
				return ex{}, false
			}
			pre := append(append([]string{}, a.pre...), b.pre...)
			op := map[token.Token]string{token.LSS: "<", token.LEQ: "≤", token.GTR: ">", token.GEQ: "≥", token.EQL: "=", token.NEQ: "≠"}[x.Op]
			return ex{pre, "decide (" + a.text + " " + op + " " + b.text + ")"}, true
		}
		return ex{}, false
	case *ast.SelectorExpr:
		if sel, ok := t.info().Selections[x]; ok && sel.Kind() == types.FieldVal {
			kr := t.ft.kindOf(t.typeOf(x.X))
			if kr.k != "struct" {
				return ex{}, false
			}
			si := t.ft.structs[kr.s]
			if _, ok := si.fkind[x.Sel.Name]; !ok {
				return ex{}, false
			}
			a, ok := t.exprIn(x.X)
			if !ok {
				return ex{}, false
			}
			return ex{a.pre, a.text + "." + lid(x.Sel.Name)}, true
		}
		if s, ok := t.pkgInt(t.info().Uses[x.Sel]); ok {
			return ex{text: s}, true
		}
		if s, ok := t.pkgStr(t.info().Uses[x.Sel]); ok {
			return ex{text: s}, true
		}
		return ex{}, false
	case *ast.IndexExpr:
		if r, ok := t.strTableIndex(x); ok {
			return r, true
		}
		if t.ft.strMode && t.ft.kindOf(t.typeOf(x.X)).k == "runes" && t.ft.kindOf(t.typeOf(x.Index)).k == "int" {
			r, ok1 := t.expr(x.X)
			i, ok2 := t.expr(x.Index)
			if ok1 && ok2 {
				v := t.fresh("t")
				pre := append(append([]string{}, r.pre...), i.pre...)
				return ex{append(pre, fmt.Sprintf("let %s ← runeAt %s %s", v, r.text, i.text)), v}, true
			}
		}
		tn, _, ok := t.tableName(x.X)
		if !ok {
			if t.ft.kindOf(t.typeOf(x.X)).k == "ilist" {
				if l, ok := t.exprIn(x.X); ok {
					tn, ok = l.text, true
					if len(l.pre) > 0 {
						return ex{}, false
					}
				}
			}
		}
		if tn == "" {
			return ex{}, false
		}
		if t.ft.kindOf(t.typeOf(x.Index)).k != "int" {
			return ex{}, false
		}
		i, ok := t.expr(x.Index)
		if !ok {
			return ex{}, false
		}
		v := t.fresh("t")
		pre := append(append([]string{}, i.pre...), fmt.Sprintf("let %s ← idx %s %s", v, tn, i.text))
		return ex{pre, v}, true
	case *ast.CallExpr:
		return t.call(x)
	case *ast.StarExpr:
		return t.exprIn(x.X)
	case *ast.SliceExpr:
		isRunes := t.ft.kindOf(t.typeOf(x.X)).k == "runes"
		if !t.ft.strMode || x.Slice3 || (t.ft.kindOf(t.typeOf(x.X)).k != "string" && !isRunes) {
			return ex{}, false
		}
		sx, ok := t.expr(x.X)
		if !ok {
			return ex{}, false
		}
		pre := append([]string{}, sx.pre...)
		lo, hi := "0", "(strLen "+sx.text+")"
		if isRunes {
			hi = "(" + sx.text + ".length : Int)"
		}
		if x.Low != nil {
			a, ok := t.expr(x.Low)
			if !ok {
				return ex{}, false
			}
			pre = append(pre, a.pre...)
			lo = a.text
		}
		if x.High != nil {
			b, ok := t.expr(x.High)
			if !ok {
				return ex{}, false
			}
			pre = append(pre, b.pre...)
			hi = b.text
		}
		v := t.fresh("t")
		if isRunes {
			pre = append(pre, fmt.Sprintf("let %s ← runesSlice %s %s %s", v, sx.text, lo, hi))
		} else {
			pre = append(pre, fmt.Sprintf("let %s ← strSlice %s %s %s", v, sx.text, lo, hi))
		}
		return ex{pre, v}, true
	case *ast.TypeAssertExpr:
		// i.Value.(string) for the element of a list iteration
		if sel, ok := x.X.(*ast.SelectorExpr); ok && sel.Sel.Name == "Value" {
			if id, ok := sel.X.(*ast.Ident); ok {
				if ev, ok := t.listElem[t.info().Uses[id]]; ok && t.ft.kindOf(t.typeOf(x)).k == "string" {
					return ex{text: ev}, true
				}
			}
		}
		return ex{}, false
	}
	return ex{}, false
}

func (t *tctx) call(x *ast.CallExpr) (ex, bool) {
	// conversions and builtins
	if at, ok := x.Fun.(*ast.ArrayType); ok && at.Len == nil && len(x.Args) == 1 && t.ft.strMode {
		if id, ok := at.Elt.(*ast.Ident); ok && id.Name == "rune" && t.ft.kindOf(t.typeOf(x.Args[0])).k == "string" {
			a, ok := t.expr(x.Args[0])
			if ok {
				return ex{a.pre, "(" + a.text + ".toList)"}, true
			}
		}
		return ex{}, false
	}
	if id, ok := x.Fun.(*ast.Ident); ok {
		if tn, ok := t.info().Uses[id].(*types.TypeName); ok && len(x.Args) == 1 {
			if t.ft.kindOf(tn.Type()).k == "int" && t.ft.kindOf(t.typeOf(x.Args[0])).k == "int" {
				return t.exprIn(x.Args[0])
			}
			if t.ft.kindOf(tn.Type()).k == "int" {
				if r, ok := t.ceilPattern(x.Args[0]); ok {
					return r, true
				}
			}
			if t.ft.kindOf(tn.Type()).k == "string" && t.ft.kindOf(t.typeOf(x.Args[0])).k == "runes" {
				a, ok := t.expr(x.Args[0])
				if ok {
					return ex{a.pre, "(String.ofList " + a.text + ")"}, true
				}
			}
			return ex{}, false
		}
		if b, ok := t.info().Uses[id].(*types.Builtin); ok {
			switch b.Name() {
			case "len":
				if t.ft.kindOf(t.typeOf(x.Args[0])).k == "string" {
					if a, ok := t.expr(x.Args[0]); ok {
						return ex{a.pre, "(strLen " + a.text + ")"}, true
					}
				}
				if t.ft.kindOf(t.typeOf(x.Args[0])).k == "runes" {
					if a, ok := t.expr(x.Args[0]); ok {
						return ex{a.pre, "(" + a.text + ".length : Int)"}, true
					}
				}
				if _, n, ok := t.tableName(x.Args[0]); ok {
					return ex{text: fmt.Sprint(n)}, true
				}
				if n, ok := t.pkgListLen(x.Args[0]); ok {
					return ex{text: fmt.Sprint(n)}, true
				}
				if t.ft.kindOf(t.typeOf(x.Args[0])).k == "ilist" {
					if l, ok := t.exprIn(x.Args[0]); ok && len(l.pre) == 0 {
						return ex{text: "(" + l.text + ".length : Int)"}, true
					}
				}
			case "new":
				k := t.ft.kindOf(t.typeOf(x))
				if k.k == "struct" {
					t.out.notes = append(t.out.notes, "new("+k.s+") modelled as the all-zero struct value (opaque fields, nil-ness and aliasing not modelled)")
					return ex{text: "(default : " + k.s + ")"}, true
				}
			}
			return ex{}, false
		}
	}
	f, recv := t.calleeOf(x)
	if f == nil {
		return ex{}, false
	}
	if t.ft.strMode && f.Pkg() != nil && (f.Pkg().Path() == "strings" || f.Pkg().Path() == "fmt") {
		return t.stdStr(f, x)
	}
	if t.ft.strMode && f.Pkg() != nil && f.Pkg().Path() == "container/list" {
		switch f.Name() {
		case "New":
			return ex{text: "([] : List String)"}, true
		case "Len":
			if recv != nil {
				if a, ok := t.exprIn(recv); ok && t.ft.kindOf(t.typeOf(recv)).k == "slist" {
					return ex{a.pre, "(" + a.text + ".length : Int)"}, true
				}
			}
		}
		return ex{}, false
	}
	d, o := t.ft.ensure(f)
	if d == nil || o == nil || !o.ok || len(o.atoms) > 0 || o.mutates != "" || !o.hasRet || o.optRet {
		return ex{}, false
	}
	var pre []string
	var args []string
	if recv != nil {
		if t.ft.kindOf(t.typeOf(recv)).k != "struct" {
			return ex{}, false
		}
		a, ok := t.expr(recv)
		if !ok {
			return ex{}, false
		}
		pre = append(pre, a.pre...)
		args = append(args, a.text)
	}
	if x.Ellipsis != token.NoPos {
		return ex{}, false
	}
	for _, a0 := range x.Args {
		if t.ft.kindOf(t.typeOf(a0)).k == "opaque" {
			// the callee's Lean signature has no parameter for values outside the subset
			t.drop(a0, "argument outside the subset, not passed to "+d.lean)
			continue
		}
		a, ok := t.expr(a0)
		if !ok {
			return ex{}, false
		}
		pre = append(pre, a.pre...)
		args = append(args, a.text)
	}
	if o.needFuel {
		t.out.needFuel = true
		args = append([]string{"fuel"}, args...)
	}
	v := t.fresh("t")
	pre = append(pre, fmt.Sprintf("let %s ← %s %s", v, d.lean, strings.Join(args, " ")))
	return ex{pre, v}, true
}

// pkgInt: a package-level int variable / constant whose initialiser gotrans evaluated (read as its initial value; the
// write facts of Gen.Facts show that nothing assigns these)
func (t *tctx) pkgInt(o types.Object) (string, bool) {
	v, ok := o.(*types.Var)
	if !ok || v.Pkg() == nil || v.Parent() != v.Pkg().Scope() {
		return "", false
	}
	if b, ok := v.Type().(*types.Basic); !ok || b.Kind() != types.Int {
		return "", false
	}
	pk := strings.TrimPrefix(v.Pkg().Path(), modPath)
	pi, ok := t.ft.infos[pk]
	if !ok {
		return "", false
	}
	init, ok := pi.decls[v.Name()]
	if !ok || init == nil {
		return "", false
	}
	val, ok := pi.eval(init, 0)
	if !ok || val.kind != "int" {
		return "", false
	}
	t.out.notes = append(t.out.notes, "package variable "+pk+"."+v.Name()+" read as its initial value")
	return "Gen.Tables." + pk + "." + leanIdent(v.Name()), true
}

// pkgTable: a package-level table variable whose literal gotrans evaluated; returns the Lean name and the value
func (t *tctx) pkgTable(e ast.Expr) (string, val, bool) {
	var obj types.Object
	switch x := e.(type) {
	case *ast.Ident:
		obj = t.info().Uses[x]
	case *ast.SelectorExpr:
		obj = t.info().Uses[x.Sel]
	}
	v, ok := obj.(*types.Var)
	if !ok || v.Pkg() == nil || v.Parent() != v.Pkg().Scope() {
		return "", val{}, false
	}
	pk := strings.TrimPrefix(v.Pkg().Path(), modPath)
	pi, ok := t.ft.infos[pk]
	if !ok {
		return "", val{}, false
	}
	init, ok := pi.decls[v.Name()]
	if !ok || init == nil {
		return "", val{}, false
	}
	vv, ok := pi.eval(init, 0)
	if !ok || !uniform(vv, shape(vv)) {
		return "", val{}, false
	}
	return "Gen.Tables." + pk + "." + leanIdent(v.Name()), vv, true
}

// strTableIndex: T[i] for a package []string table (bounds panic), M[k] for a package map[string]string / map[string]int
// table (missing key = zero value)
func (t *tctx) strTableIndex(x *ast.IndexExpr) (ex, bool) {
	if !t.ft.strMode {
		return ex{}, false
	}
	name, vv, ok := t.pkgTable(x.X)
	if !ok {
		return ex{}, false
	}
	switch shape(vv) {
	case "List (String)", "List String":
		if t.ft.kindOf(t.typeOf(x.Index)).k != "int" {
			return ex{}, false
		}
		i, ok := t.expr(x.Index)
		if !ok {
			return ex{}, false
		}
		v := t.fresh("t")
		return ex{append(append([]string{}, i.pre...), fmt.Sprintf("let %s ← sidx %s %s", v, name, i.text)), v}, true
	case "List (String × String)":
		k, ok := t.expr(x.Index)
		if !ok || t.ft.kindOf(t.typeOf(x.Index)).k != "string" {
			return ex{}, false
		}
		return ex{k.pre, "(mlookupS " + name + " " + k.text + ")"}, true
	case "List (String × Int)":
		k, ok := t.expr(x.Index)
		if !ok || t.ft.kindOf(t.typeOf(x.Index)).k != "string" {
			return ex{}, false
		}
		return ex{k.pre, "(mlookupI " + name + " " + k.text + ")"}, true
	}
	return ex{}, false
}

// stdStr: the strings / fmt functions inside the subset
func (t *tctx) stdStr(f *types.Func, x *ast.CallExpr) (ex, bool) {
	args := func() ([]string, []string, bool) {
		var pre, as []string
		for _, a0 := range x.Args {
			k := t.ft.kindOf(t.typeOf(a0)).k
			if k != "string" && k != "int" {
				return nil, nil, false
			}
			a, ok := t.expr(a0)
			if !ok {
				return nil, nil, false
			}
			pre = append(pre, a.pre...)
			as = append(as, a.text)
		}
		return pre, as, true
	}
	switch f.Pkg().Path() + "." + f.Name() {
	case "strings.Compare":
		pre, as, ok := args()
		if !ok || len(as) != 2 {
			return ex{}, false
		}
		return ex{pre, "(strCompare " + as[0] + " " + as[1] + ")"}, true
	case "strings.Contains", "strings.HasPrefix", "strings.HasSuffix":
		pre, as, ok := args()
		if !ok || len(as) != 2 {
			return ex{}, false
		}
		fn := map[string]string{"Contains": "strContains", "HasPrefix": "strHasPrefix", "HasSuffix": "strHasSuffix"}[f.Name()]
		return ex{pre, "(" + fn + " " + as[0] + " " + as[1] + ")"}, true
	case "strings.Index":
		pre, as, ok := args()
		if !ok || len(as) != 2 {
			return ex{}, false
		}
		return ex{pre, "(strIndex " + as[0] + " " + as[1] + ")"}, true
	case "strings.ToUpper":
		pre, as, ok := args()
		if !ok || len(as) != 1 {
			return ex{}, false
		}
		t.out.notes = append(t.out.notes, "strings.ToUpper modelled on ASCII letters only")
		return ex{pre, "(strToUpper " + as[0] + ")"}, true
	case "strings.Replace":
		pre, as, ok := args()
		if !ok || len(as) != 4 {
			return ex{}, false
		}
		return ex{pre, "(strReplace " + as[0] + " " + as[1] + " " + as[2] + " " + as[3] + ")"}, true
	case "fmt.Sprintf":
		if len(x.Args) == 0 {
			return ex{}, false
		}
		tv, ok := t.info().Types[x.Args[0]]
		if !ok || tv.Value == nil || tv.Value.Kind() != constant.String {
			return ex{}, false
		}
		format := constant.StringVal(tv.Value)
		var pre, parts []string
		argi := 1
		lit := ""
		flush := func() {
			if lit != "" {
				parts = append(parts, leanStr(lit))
				lit = ""
			}
		}
		rs := []rune(format)
		for i := 0; i < len(rs); i++ {
			if rs[i] != '%' {
				lit += string(rs[i])
				continue
			}
			i++
			if i >= len(rs) {
				return ex{}, false
			}
			if rs[i] == '%' {
				lit += "%"
				continue
			}
			zero := false
			width := 0
			if rs[i] == '0' {
				zero = true
				i++
			}
			for i < len(rs) && rs[i] >= '0' && rs[i] <= '9' {
				width = width*10 + int(rs[i]-'0')
				i++
			}
			if i >= len(rs) || argi >= len(x.Args) {
				return ex{}, false
			}
			verb := rs[i]
			a0 := x.Args[argi]
			argi++
			k := t.ft.kindOf(t.typeOf(a0)).k
			a, ok := t.expr(a0)
			if !ok {
				return ex{}, false
			}
			pre = append(pre, a.pre...)
			flush()
			switch {
			case (verb == 'd' || verb == 'v') && k == "int" && width == 0 && !zero:
				parts = append(parts, "fmtD "+a.text)
			case verb == 'd' && k == "int" && zero && width > 0:
				parts = append(parts, fmt.Sprintf("fmtPad %d %s", width, a.text))
			case verb == 'x' && k == "int" && width == 0 && !zero:
				parts = append(parts, "fmtX "+a.text)
			case (verb == 's' || verb == 'v') && k == "string" && width == 0 && !zero:
				parts = append(parts, a.text)
			default:
				return ex{}, false
			}
		}
		flush()
		if argi != len(x.Args) {
			return ex{}, false
		}
		if len(parts) == 0 {
			return ex{pre, "\"\""}, true
		}
		return ex{pre, "(" + strings.Join(parts, " ++ ") + ")"}, true
	}
	return ex{}, false
}

// pkgListLen: len() of a package-level slice variable whose literal gotrans evaluated (its initial length)
func (t *tctx) pkgListLen(e ast.Expr) (int, bool) {
	var obj types.Object
	switch x := e.(type) {
	case *ast.Ident:
		obj = t.info().Uses[x]
	case *ast.SelectorExpr:
		obj = t.info().Uses[x.Sel]
	}
	v, ok := obj.(*types.Var)
	if !ok || v.Pkg() == nil || v.Parent() != v.Pkg().Scope() {
		return 0, false
	}
	pk := strings.TrimPrefix(v.Pkg().Path(), modPath)
	pi, ok := t.ft.infos[pk]
	if !ok {
		return 0, false
	}
	init, ok := pi.decls[v.Name()]
	if !ok || init == nil {
		return 0, false
	}
	val, ok := pi.eval(init, 0)
	if !ok || val.kind != "list" {
		return 0, false
	}
	t.out.notes = append(t.out.notes, "len("+pk+"."+v.Name()+") read as the length of its initial value")
	return len(val.list), true
}

// pkgStr: a package-level string variable whose initialiser gotrans evaluated, read as its initial value (string mode)
func (t *tctx) pkgStr(o types.Object) (string, bool) {
	if !t.ft.strMode {
		return "", false
	}
	v, ok := o.(*types.Var)
	if !ok || v.Pkg() == nil || v.Parent() != v.Pkg().Scope() {
		return "", false
	}
	if b, ok := v.Type().(*types.Basic); !ok || b.Kind() != types.String {
		return "", false
	}
	pk := strings.TrimPrefix(v.Pkg().Path(), modPath)
	pi, ok := t.ft.infos[pk]
	if !ok {
		return "", false
	}
	init, ok := pi.decls[v.Name()]
	if !ok || init == nil {
		return "", false
	}
	val, ok := pi.eval(init, 0)
	if !ok || val.kind != "str" {
		return "", false
	}
	t.out.notes = append(t.out.notes, "package variable "+pk+"."+v.Name()+" read as its initial value")
	return "Gen.Tables." + pk + "." + leanIdent(v.Name()), true
}

// ceilPattern: math.Ceil(float64(E) / C) with int E and a positive integer constant C, under int(...):
// exact in float64 for |E| < 2^50 (E converts exactly; a non-integral quotient is at least 1/C from an integer)
func (t *tctx) ceilPattern(e ast.Expr) (ex, bool) {
	call, ok := e.(*ast.CallExpr)
	if !ok || len(call.Args) != 1 {
		return ex{}, false
	}
	sel, ok := call.Fun.(*ast.SelectorExpr)
	if !ok || sel.Sel.Name != "Ceil" {
		return ex{}, false
	}
	if f, ok := t.info().Uses[sel.Sel].(*types.Func); !ok || f.Pkg() == nil || f.Pkg().Path() != "math" {
		return ex{}, false
	}
	arg := call.Args[0]
	for {
		if p, ok := arg.(*ast.ParenExpr); ok {
			arg = p.X
			continue
		}
		break
	}
	be, ok := arg.(*ast.BinaryExpr)
	if !ok || be.Op != token.QUO {
		return ex{}, false
	}
	tv, ok := t.info().Types[be.Y]
	if !ok || tv.Value == nil {
		return ex{}, false
	}
	c, exact := constant.Int64Val(constant.ToInt(tv.Value))
	if !exact || c <= 0 {
		return ex{}, false
	}
	conv, ok := be.X.(*ast.CallExpr)
	if !ok || len(conv.Args) != 1 {
		return ex{}, false
	}
	if id, ok := conv.Fun.(*ast.Ident); !ok || id.Name != "float64" {
		return ex{}, false
	}
	if t.ft.kindOf(t.typeOf(conv.Args[0])).k != "int" {
		return ex{}, false
	}
	a, ok := t.expr(conv.Args[0])
	if !ok {
		return ex{}, false
	}
	t.out.notes = append(t.out.notes, "int(math.Ceil(float64(E)/"+fmt.Sprint(c)+")) translated as the exact integer ceiling (valid for |E| < 2^50)")
	return ex{a.pre, fmt.Sprintf("(-((-%s) / %d))", a.text, c)}, true
}

// ensure translates a module function on demand (callees of targets); targets are always kept, on-demand functions only
// when they are inside the subset without atoms.
func (ft *fnTrans) ensure(f *types.Func) (*fnDecl, *fnOut) {
	d, ok := ft.allObj[f]
	if !ok {
		return nil, nil
	}
	if o, ok := ft.out[d.key]; ok {
		return d, o
	}
	ft.out[d.key] = &fnOut{reason: "recursive call"}
	o := ft.translate(d)
	ft.out[d.key] = o
	if o.ok && (ft.target[d.key] || len(o.atoms) == 0) {
		ft.emit = append(ft.emit, o.text)
		ft.order = append(ft.order, d)
	} else if o.ok {
		o.ok = false
		o.reason = "outside the pure subset"
		if len(o.atoms) > 0 {
			o.reason += "; first atom: " + o.atoms[0].text
		} else if len(o.dropped) > 0 {
			o.reason += "; first dropped: " + o.dropped[0]
		}
	}
	return d, o
}

// ---------------------------------------------------------------- statements

func assignedIn(n ast.Node, info *types.Info) map[types.Object]bool {
	r := map[types.Object]bool{}
	ast.Inspect(n, func(m ast.Node) bool {
		switch s := m.(type) {
		case *ast.AssignStmt:
			for _, l := range s.Lhs {
				if id, ok := l.(*ast.Ident); ok {
					if o := info.Uses[id]; o != nil {
						r[o] = true
					}
					if o := info.Defs[id]; o != nil {
						r[o] = true
					}
				}
			}
		case *ast.IncDecStmt:
			if id, ok := s.X.(*ast.Ident); ok {
				if o := info.Uses[id]; o != nil {
					r[o] = true
				}
			}
		}
		return true
	})
	return r
}

func mentions(e ast.Node, info *types.Info) map[types.Object]bool {
	r := map[types.Object]bool{}
	ast.Inspect(e, func(m ast.Node) bool {
		if id, ok := m.(*ast.Ident); ok {
			if o := info.Uses[id]; o != nil {
				r[o] = true
			}
		}
		return true
	})
	return r
}

func (t *tctx) drop(s ast.Node, why string) {
	t.out.dropped = append(t.out.dropped, fmt.Sprintf("%s: %s", why, src(t.fset(), s)))
}

// mayWriteTranslated: does the (untranslated) call possibly write a translated field of one of our struct locals?
func (t *tctx) droppedCallSafe(call *ast.CallExpr) bool {
	f, recv := t.calleeOf(call)
	touches := false
	check := func(a ast.Expr) {
		if a == nil {
			return
		}
		if t.ft.kindOf(t.typeOf(a)).k == "struct" {
			touches = true
		}
	}
	check(recv)
	for _, a := range call.Args {
		check(a)
	}
	if !touches {
		return true
	}
	if f == nil {
		return false
	}
	ws := t.ft.writes[f.FullName()]
	for w := range ws {
		parts := strings.SplitN(w, ".", 2)
		if si, ok := t.ft.structs[parts[0]]; ok {
			if _, tr := si.fkind[parts[1]]; tr {
				return false
			}
		}
	}
	return true
}

func (t *tctx) block(list []ast.Stmt) []string {
	var out []string
	for _, s := range list {
		out = append(out, t.stmt(s)...)
		if t.fail != "" {
			return out
		}
	}
	if len(out) == 0 {
		out = append(out, "pure ()")
	}
	return out
}

func (t *tctx) retLine(e *ex) []string {
	var lines []string
	if e != nil {
		lines = append(lines, e.pre...)
	}
	switch {
	case t.out.mutates != "" && e != nil:
		lines = append(lines, "return ("+e.text+", "+t.out.mutates+")")
	case t.out.mutates != "":
		lines = append(lines, "return "+t.out.mutates)
	case e != nil:
		lines = append(lines, "return "+e.text)
	default:
		lines = append(lines, "return ()")
	}
	return lines
}

func (t *tctx) assignTo(lhs ast.Expr, rhsText string, define bool, k kind) []string {
	switch l := lhs.(type) {
	case *ast.Ident:
		if l.Name == "_" {
			return nil
		}
		if define {
			if o := t.info().Defs[l]; o != nil {
				t.locals[o] = k
				return []string{fmt.Sprintf("let mut %s : %s := %s", lid(l.Name), k.lean(), rhsText)}
			}
		}
		o := t.info().Uses[l]
		if o == nil {
			o = t.info().Defs[l]
		}
		if _, ok := t.locals[o]; !ok {
			t.failf("assignment to untranslated variable %s", l.Name)
			return nil
		}
		if a, ok := t.alias[o]; ok {
			return []string{fmt.Sprintf("%s := %s", a, rhsText)}
		}
		return []string{fmt.Sprintf("%s := %s", lid(l.Name), rhsText)}
	case *ast.SelectorExpr:
		// x.f = e on a struct local
		base, ok := l.X.(*ast.Ident)
		if !ok {
			t.failf("field write through a non-variable: %s", src(t.fset(), lhs))
			return nil
		}
		o := t.info().Uses[base]
		bk, ok := t.locals[o]
		if !ok || bk.k != "struct" {
			t.failf("field write on untranslated variable: %s", src(t.fset(), lhs))
			return nil
		}
		if _, ok := t.ft.structs[bk.s].fkind[l.Sel.Name]; !ok {
			t.failf("write to an opaque field as a translated value: %s", src(t.fset(), lhs))
			return nil
		}
		return []string{fmt.Sprintf("%s := { %s with %s := %s }", lid(base.Name), lid(base.Name), lid(l.Sel.Name), rhsText)}
	}
	t.failf("unsupported assignment target %s", src(t.fset(), lhs))
	return nil
}

func (t *tctx) lhsKind(lhs ast.Expr) kind {
	if id, ok := lhs.(*ast.Ident); ok {
		if id.Name == "_" {
			return kind{k: "opaque"}
		}
		if o := t.info().Defs[id]; o != nil {
			return t.ft.kindOf(o.Type())
		}
		if o := t.info().Uses[id]; o != nil {
			return t.ft.kindOf(o.Type())
		}
	}
	if sel, ok := lhs.(*ast.SelectorExpr); ok {
		if s, ok := t.info().Selections[sel]; ok && s.Kind() == types.FieldVal {
			kr := t.ft.kindOf(t.typeOf(sel.X))
			if kr.k == "struct" {
				if fk, ok := t.ft.structs[kr.s].fkind[sel.Sel.Name]; ok {
					return fk
				}
			}
			return kind{k: "opaque"}
		}
	}
	return t.ft.kindOf(t.typeOf(lhs))
}

func (t *tctx) stmt(s ast.Stmt) []string {
	switch x := s.(type) {
	case *ast.EmptyStmt:
		return nil
	case *ast.BlockStmt:
		return append([]string{"do"}, ind(t.block(x.List))...)
	case *ast.DeclStmt:
		gd, ok := x.Decl.(*ast.GenDecl)
		if !ok || gd.Tok != token.VAR {
			t.failf("unsupported declaration")
			return nil
		}
		var out []string
		for _, sp := range gd.Specs {
			vs := sp.(*ast.ValueSpec)
			for i, n := range vs.Names {
				o := t.info().Defs[n]
				k := t.ft.kindOf(o.Type())
				if k.k == "opaque" {
					t.drop(x, "declaration of a value outside the subset")
					continue
				}
				if i < len(vs.Values) {
					e, ok := t.expr(vs.Values[i])
					if !ok {
						t.failf("unsupported initialiser %s", src(t.fset(), vs.Values[i]))
						return nil
					}
					out = append(out, e.pre...)
					t.locals[o] = k
					out = append(out, fmt.Sprintf("let mut %s : %s := %s", lid(n.Name), k.lean(), e.text))
				} else {
					t.locals[o] = k
					zero := map[string]string{"int": "0", "bool": "false", "string": "\"\""}[k.k]
					if k.k == "struct" {
						zero = "default"
						t.out.notes = append(t.out.notes, "var "+n.Name+" *"+k.s+" (nil) modelled as the all-zero struct value")
					}
					out = append(out, fmt.Sprintf("let mut %s : %s := %s", lid(n.Name), k.lean(), zero))
				}
			}
		}
		return out
	case *ast.AssignStmt:
		if r, ok := t.parseIntAssign(x); ok {
			return r
		}
		if len(x.Lhs) != len(x.Rhs) {
			// v, ok := m[k] and friends
			for _, l := range x.Lhs {
				if t.lhsKind(l).k != "opaque" {
					if id, ok := l.(*ast.Ident); !ok || id.Name != "_" {
						t.failf("multi-value assignment into a translated variable: %s", src(t.fset(), x))
						return nil
					}
				}
			}
			t.drop(x, "assignment outside the subset")
			return nil
		}
		if len(x.Lhs) > 1 {
			t.failf("parallel assignment: %s", src(t.fset(), x))
			return nil
		}
		lhs, rhs := x.Lhs[0], x.Rhs[0]
		k := t.lhsKind(lhs)
		if k.k == "opaque" {
			// value outside the subset; the right side may still hide a translated call that can panic: not modelled
			if ce, ok := rhs.(*ast.CallExpr); ok && !t.droppedCallSafe(ce) {
				t.failf("dropped call may write translated state: %s", src(t.fset(), x))
				return nil
			}
			t.drop(x, "assignment outside the subset")
			return nil
		}
		switch x.Tok {
		case token.DEFINE, token.ASSIGN:
			if id, ok := rhs.(*ast.Ident); ok && id.Name == "nil" && k.k == "struct" {
				t.out.notes = append(t.out.notes, "nil assigned to a *"+k.s+" variable modelled as the all-zero struct value")
				return t.assignTo(lhs, "default", x.Tok == token.DEFINE, k)
			}
			e, ok := t.expr(rhs)
			if !ok {
				t.failf("unsupported right side %s", src(t.fset(), rhs))
				return nil
			}
			return append(e.pre, t.assignTo(lhs, e.text, x.Tok == token.DEFINE, k)...)
		case token.ADD_ASSIGN, token.SUB_ASSIGN, token.MUL_ASSIGN, token.QUO_ASSIGN, token.REM_ASSIGN:
			op := map[token.Token]token.Token{token.ADD_ASSIGN: token.ADD, token.SUB_ASSIGN: token.SUB, token.MUL_ASSIGN: token.MUL, token.QUO_ASSIGN: token.QUO, token.REM_ASSIGN: token.REM}[x.Tok]
			be := &ast.BinaryExpr{X: lhs, Op: op, Y: rhs}
			// type info for the synthetic node: evaluate pieces separately
			a, ok1 := t.expr(lhs)
			b, ok2 := t.expr(rhs)
			if ok1 && ok2 && k.k == "string" && op == token.ADD && t.ft.kindOf(t.typeOf(rhs)).k == "string" {
				pre := append(append([]string{}, a.pre...), b.pre...)
				return append(pre, t.assignTo(lhs, "("+a.text+" ++ "+b.text+")", false, k)...)
			}
			if !ok1 || !ok2 || k.k != "int" {
				t.failf("unsupported compound assignment %s", src(t.fset(), x))
				return nil
			}
			_ = be
			pre := append(append([]string{}, a.pre...), b.pre...)
			var text string
			switch op {
			case token.ADD:
				text = "(" + a.text + " + " + b.text + ")"
			case token.SUB:
				text = "(" + a.text + " - " + b.text + ")"
			case token.MUL:
				text = "(" + a.text + " * " + b.text + ")"
			default:
				nonzero := false
				if tv, ok := t.info().Types[rhs]; ok && tv.Value != nil && tv.Value.Kind() == constant.Int && constant.Sign(tv.Value) != 0 {
					nonzero = true
				}
				if !nonzero {
					pre = append(pre, "if "+b.text+" == 0 then throw Err.panic")
				}
				fn := "Int.tdiv"
				if op == token.REM {
					fn = "Int.tmod"
				}
				text = "(" + fn + " " + a.text + " " + b.text + ")"
			}
			return append(pre, t.assignTo(lhs, text, false, k)...)
		}
		t.failf("unsupported assignment operator in %s", src(t.fset(), x))
		return nil
	case *ast.IncDecStmt:
		k := t.lhsKind(x.X)
		if k.k != "int" {
			t.failf("++/-- on a value outside the subset: %s", src(t.fset(), x))
			return nil
		}
		a, ok := t.expr(x.X)
		if !ok {
			t.failf("unsupported ++/-- operand")
			return nil
		}
		op := "+"
		if x.Tok == token.DEC {
			op = "-"
		}
		return append(a.pre, t.assignTo(x.X, "("+a.text+" "+op+" 1)", false, k)...)
	case *ast.ExprStmt:
		call, ok := x.X.(*ast.CallExpr)
		if !ok {
			t.failf("unsupported expression statement")
			return nil
		}
		if id, ok := call.Fun.(*ast.Ident); ok {
			if b, ok := t.info().Uses[id].(*types.Builtin); ok && b.Name() == "panic" {
				return []string{"throw Err.panic"}
			}
		}
		f, recvE := t.calleeOf(call)
		if f != nil && t.ft.strMode && f.Pkg() != nil && f.Pkg().Path() == "container/list" && (f.Name() == "PushBack" || f.Name() == "PushFront") && len(call.Args) == 1 {
			id, ok := recvE.(*ast.Ident)
			if ok {
				if lk, ok := t.locals[t.info().Uses[id]]; ok && lk.k == "slist" && t.ft.kindOf(t.typeOf(call.Args[0])).k == "string" {
					a, ok := t.expr(call.Args[0])
					if ok {
						if f.Name() == "PushBack" {
							return append(a.pre, fmt.Sprintf("%s := %s ++ [%s]", lid(id.Name), lid(id.Name), a.text))
						}
						return append(a.pre, fmt.Sprintf("%s := %s :: %s", lid(id.Name), a.text, lid(id.Name)))
					}
				}
			}
			t.failf("unsupported list operation %s", src(t.fset(), x))
			return nil
		}
		if f != nil {
			if d, o := t.ft.ensure(f); d != nil {
				if o != nil && o.ok && len(o.atoms) == 0 {
					if o.mutates != "" && !o.hasRet && len(call.Args) >= 1 {
						// f(p, ...) with p updated
						return t.mutCall(call, d, o)
					}
					if o.mutates == "" {
						e, ok := t.call(call)
						if ok {
							return e.pre
						}
					}
				}
			}
		}
		if !t.droppedCallSafe(call) {
			t.failf("dropped call may write translated state: %s", src(t.fset(), x))
			return nil
		}
		t.drop(x, "call outside the subset")
		return nil
	case *ast.ReturnStmt:
		if len(x.Results) == 0 {
			return t.retLine(nil)
		}
		if len(x.Results) > 1 {
			t.failf("multiple results")
			return nil
		}
		if id, ok := x.Results[0].(*ast.Ident); ok && id.Name == "nil" && t.out.optRet {
			e := ex{text: "none"}
			return t.retLine(&e)
		}
		e, ok := t.expr(x.Results[0])
		if !ok {
			t.failf("unsupported result %s", src(t.fset(), x.Results[0]))
			return nil
		}
		if t.out.optRet {
			e.text = "(some " + e.text + ")"
		}
		return t.retLine(&e)
	case *ast.IfStmt:
		if x.Init != nil {
			if r, ok := t.ifMapLookup(x); ok {
				return r
			}
			if r, ok := t.ifInit(x); ok {
				return r
			}
			t.failf("if with init statement: %s", src(t.fset(), x.Init))
			return nil
		}
		c, ok := t.expr(x.Cond)
		if !ok {
			t.failf("unsupported condition %s", src(t.fset(), x.Cond))
			return nil
		}
		out := append([]string{}, c.pre...)
		out = append(out, "if "+c.text+" then")
		out = append(out, ind(t.block(x.Body.List))...)
		if x.Else != nil {
			out = append(out, "else")
			switch e := x.Else.(type) {
			case *ast.BlockStmt:
				out = append(out, ind(t.block(e.List))...)
			default:
				out = append(out, ind(t.stmt(e))...)
			}
		}
		return out
	case *ast.BranchStmt:
		if x.Label != nil || t.inLoop == 0 {
			t.failf("unsupported branch statement")
			return nil
		}
		switch x.Tok {
		case token.BREAK:
			if f := t.brk[len(t.brk)-1]; f != "" {
				return []string{f + " := true", "break"}
			}
			return []string{"break"}
		case token.CONTINUE:
			return []string{"continue"}
		}
		t.failf("unsupported branch statement")
		return nil
	case *ast.ForStmt:
		return t.forStmt(x)
	case *ast.SwitchStmt:
		return t.switchStmt(x)
	case *ast.RangeStmt:
		return t.rangeStmt(x)
	}
	t.failf("unsupported statement %T", s)
	return nil
}

// switchStmt: `switch tag { case a, b: ... default: ... }` without fallthrough becomes an if-else chain; a trailing `break`
// of a case body is dropped, any other `break` directly inside the switch is not supported.
func (t *tctx) switchStmt(x *ast.SwitchStmt) []string {
	if x.Init != nil {
		t.failf("switch with init statement")
		return nil
	}
	var out []string
	tag := ""
	if x.Tag != nil {
		if t.ft.kindOf(t.typeOf(x.Tag)).k != "int" {
			t.failf("switch on a value outside the subset: %s", src(t.fset(), x.Tag))
			return nil
		}
		e, ok := t.expr(x.Tag)
		if !ok {
			t.failf("unsupported switch tag")
			return nil
		}
		out = append(out, e.pre...)
		tag = t.fresh("sw")
		out = append(out, fmt.Sprintf("let %s : Int := %s", tag, e.text))
	}
	var def *ast.CaseClause
	type arm struct {
		cond string
		body []string
	}
	var arms []arm
	for _, c0 := range x.Body.List {
		cc := c0.(*ast.CaseClause)
		body := cc.Body
		if n := len(body); n > 0 {
			if b, ok := body[n-1].(*ast.BranchStmt); ok && b.Tok == token.BREAK && b.Label == nil {
				body = body[:n-1]
			}
		}
		bad := false
		for _, st := range body {
			ast.Inspect(st, func(n ast.Node) bool {
				switch m := n.(type) {
				case *ast.ForStmt, *ast.RangeStmt, *ast.SwitchStmt:
					return false
				case *ast.BranchStmt:
					if m.Tok == token.BREAK || m.Tok == token.FALLTHROUGH {
						bad = true
					}
				}
				return true
			})
		}
		if bad {
			t.failf("break / fallthrough inside a switch case")
			return nil
		}
		if cc.List == nil {
			def = &ast.CaseClause{Body: body}
			continue
		}
		var conds []string
		for _, ce := range cc.List {
			e, ok := t.expr(ce)
			if !ok || len(e.pre) > 0 {
				t.failf("unsupported case expression %s", src(t.fset(), ce))
				return nil
			}
			if tag != "" {
				conds = append(conds, "decide ("+tag+" = "+e.text+")")
			} else {
				conds = append(conds, e.text)
			}
		}
		arms = append(arms, arm{"(" + strings.Join(conds, " || ") + ")", t.block(body)})
	}
	var defBody []string
	if def != nil {
		defBody = t.block(def.Body)
	}
	// nest
	var build func(i int) []string
	build = func(i int) []string {
		if i == len(arms) {
			if def == nil {
				return []string{"pure ()"}
			}
			return defBody
		}
		r := []string{"if " + arms[i].cond + " then"}
		r = append(r, ind(arms[i].body)...)
		r = append(r, "else")
		r = append(r, ind(build(i+1))...)
		return r
	}
	return append(out, build(0)...)
}

// parseIntAssign: `n, _ := strconv.ParseInt(s, base, bits)` with base 10 / 16 (the error is ignored by the Go code: 0 on a
// syntax error)
func (t *tctx) parseIntAssign(x *ast.AssignStmt) ([]string, bool) {
	if !t.ft.strMode || len(x.Lhs) != 2 || len(x.Rhs) != 1 {
		return nil, false
	}
	call, ok := x.Rhs[0].(*ast.CallExpr)
	if !ok || len(call.Args) != 3 {
		return nil, false
	}
	f, _ := t.calleeOf(call)
	if f == nil || f.Pkg() == nil || f.Pkg().Path() != "strconv" || f.Name() != "ParseInt" {
		return nil, false
	}
	if id, ok := x.Lhs[1].(*ast.Ident); !ok || id.Name != "_" {
		return nil, false
	}
	tv, ok := t.info().Types[call.Args[1]]
	if !ok || tv.Value == nil {
		return nil, false
	}
	base, _ := constant.Int64Val(tv.Value)
	if base != 10 && base != 16 {
		return nil, false
	}
	a, ok := t.expr(call.Args[0])
	if !ok {
		return nil, false
	}
	t.out.notes = append(t.out.notes, "strconv.ParseInt with the error ignored: 0 on a syntax error; range errors not modelled")
	return append(a.pre, t.assignTo(x.Lhs[0], fmt.Sprintf("(parseIntBase %d %s)", base, a.text), x.Tok == token.DEFINE, kind{k: "int"})...), true
}

// listLoop: `for i := l.Front(); i != nil; i = i.Next() { … i.Value.(string) … }` over a list of strings
func (t *tctx) listLoop(x *ast.ForStmt) ([]string, bool) {
	if !t.ft.strMode || x.Init == nil || x.Cond == nil || x.Post == nil {
		return nil, false
	}
	as, ok := x.Init.(*ast.AssignStmt)
	if !ok || as.Tok != token.DEFINE || len(as.Lhs) != 1 || len(as.Rhs) != 1 {
		return nil, false
	}
	iv, ok := as.Lhs[0].(*ast.Ident)
	if !ok {
		return nil, false
	}
	call, ok := as.Rhs[0].(*ast.CallExpr)
	if !ok {
		return nil, false
	}
	f, recv := t.calleeOf(call)
	if f == nil || f.Pkg() == nil || f.Pkg().Path() != "container/list" || f.Name() != "Front" || recv == nil {
		return nil, false
	}
	if t.ft.kindOf(t.typeOf(recv)).k != "slist" {
		return nil, false
	}
	io := t.info().Defs[iv]
	// cond: i != nil ; post: i = i.Next()
	be, ok := x.Cond.(*ast.BinaryExpr)
	if !ok || be.Op != token.NEQ {
		return nil, false
	}
	if id, ok := be.X.(*ast.Ident); !ok || t.info().Uses[id] != io {
		return nil, false
	}
	ps, ok := x.Post.(*ast.AssignStmt)
	if !ok || len(ps.Lhs) != 1 || len(ps.Rhs) != 1 {
		return nil, false
	}
	if id, ok := ps.Lhs[0].(*ast.Ident); !ok || t.info().Uses[id] != io {
		return nil, false
	}
	pc, ok := ps.Rhs[0].(*ast.CallExpr)
	if !ok {
		return nil, false
	}
	if pf, pr := t.calleeOf(pc); pf == nil || pf.Name() != "Next" || pr == nil {
		return nil, false
	} else if id, ok := pr.(*ast.Ident); !ok || t.info().Uses[id] != io {
		return nil, false
	}
	// the list must not be modified in the body
	if lid0, ok := recv.(*ast.Ident); ok {
		if assignedIn(x.Body, t.info())[t.info().Uses[lid0]] {
			return nil, false
		}
	}
	l, ok := t.expr(recv)
	if !ok {
		return nil, false
	}
	ev := t.fresh("e")
	out := append([]string{}, l.pre...)
	out = append(out, fmt.Sprintf("for %s in %s do", ev, l.text))
	t.listElem[io] = ev
	t.inLoop++
	t.brk = append(t.brk, "")
	nAtoms := len(t.out.atoms)
	body := t.block(x.Body.List)
	t.brk = t.brk[:len(t.brk)-1]
	t.inLoop--
	delete(t.listElem, io)
	if len(t.out.atoms) != nAtoms {
		t.failf("atom inside a list iteration")
		return nil, true
	}
	return append(out, ind(body)...), true
}

// rangeIList: `for i, v := range arr` over a []int parameter / local that the body does not assign
func (t *tctx) rangeIList(x *ast.RangeStmt) ([]string, bool) {
	id, ok := x.X.(*ast.Ident)
	if !ok {
		return nil, false
	}
	if assignedIn(x.Body, t.info())[t.info().Uses[id]] {
		return nil, false
	}
	l, ok := t.exprIn(x.X)
	if !ok || len(l.pre) > 0 {
		return nil, false
	}
	k := t.fresh("k")
	out := []string{fmt.Sprintf("for %s in [0:%s.length] do", k, l.text)}
	var body []string
	if kid, ok := x.Key.(*ast.Ident); ok && kid.Name != "_" {
		t.locals[t.info().Defs[kid]] = kind{k: "int"}
		body = append(body, fmt.Sprintf("let %s : Int := (%s : Int)", lid(kid.Name), k))
	}
	if x.Value != nil {
		if vid, ok := x.Value.(*ast.Ident); ok && vid.Name != "_" {
			t.locals[t.info().Defs[vid]] = kind{k: "int"}
			body = append(body, fmt.Sprintf("let %s ← idx %s (%s : Int)", lid(vid.Name), l.text, k))
		}
	}
	t.loopCtr = append(t.loopCtr, "("+k+" : Int)")
	t.inLoop++
	t.brk = append(t.brk, "")
	body = append(body, t.block(x.Body.List)...)
	t.brk = t.brk[:len(t.brk)-1]
	t.inLoop--
	t.loopCtr = t.loopCtr[:len(t.loopCtr)-1]
	return append(out, ind(body)...), true
}

// rangeStmt: `for i, v := range T` over a package-level []string / []int table
func (t *tctx) rangeStmt(x *ast.RangeStmt) []string {
	if t.ft.kindOf(t.typeOf(x.X)).k == "ilist" && x.Tok == token.DEFINE {
		if r, ok := t.rangeIList(x); ok {
			return r
		}
	}
	name, vv, ok := t.pkgTable(x.X)
	if !ok || vv.kind != "list" || x.Tok != token.DEFINE {
		t.failf("unsupported range statement over %s", src(t.fset(), x.X))
		return nil
	}
	elem := ""
	switch shape(vv) {
	case "List (String)", "List String":
		if !t.ft.strMode {
			t.failf("range over a string table outside string mode")
			return nil
		}
		elem = "string"
	case "List (Int)":
		elem = "int"
	default:
		t.failf("unsupported range element type %s", shape(vv))
		return nil
	}
	k := t.fresh("k")
	out := []string{fmt.Sprintf("for %s in [0:%d] do", k, len(vv.list))}
	var body []string
	ctr := "(" + k + " : Int)"
	if id, ok := x.Key.(*ast.Ident); ok && id.Name != "_" {
		t.locals[t.info().Defs[id]] = kind{k: "int"}
		body = append(body, fmt.Sprintf("let %s : Int := (%s : Int)", lid(id.Name), k))
	}
	if x.Value != nil {
		if id, ok := x.Value.(*ast.Ident); ok && id.Name != "_" {
			t.locals[t.info().Defs[id]] = kind{k: elem}
			fn := "sidx"
			if elem == "int" {
				fn = "idx"
			}
			body = append(body, fmt.Sprintf("let %s ← %s %s (%s : Int)", lid(id.Name), fn, name, k))
		}
	}
	t.loopCtr = append(t.loopCtr, ctr)
	t.inLoop++
	t.brk = append(t.brk, "")
	body = append(body, t.block(x.Body.List)...)
	t.brk = t.brk[:len(t.brk)-1]
	t.inLoop--
	t.loopCtr = t.loopCtr[:len(t.loopCtr)-1]
	t.out.notes = append(t.out.notes, "range over "+strings.TrimPrefix(name, "Gen.Tables.")+" iterates its initial value")
	return append(out, ind(body)...)
}

// ifInit: `if x := e; cond { A } else { B }` with one variable of a supported kind: the variable gets a fresh Lean name (its Go
// scope is the if statement only), then the plain if is translated
func (t *tctx) ifInit(x *ast.IfStmt) ([]string, bool) {
	as, ok := x.Init.(*ast.AssignStmt)
	if !ok || as.Tok != token.DEFINE || len(as.Lhs) != 1 || len(as.Rhs) != 1 {
		return nil, false
	}
	id, ok := as.Lhs[0].(*ast.Ident)
	if !ok || id.Name == "_" {
		return nil, false
	}
	obj := t.info().Defs[id]
	k := t.ft.kindOf(obj.Type())
	if k.k == "opaque" {
		return nil, false
	}
	e, ok := t.expr(as.Rhs[0])
	if !ok {
		return nil, false
	}
	name := t.fresh("v")
	t.locals[obj] = k
	t.alias[obj] = name
	out := append([]string{}, e.pre...)
	out = append(out, fmt.Sprintf("let mut %s : %s := %s", name, k.lean(), e.text))
	plain := *x
	plain.Init = nil
	return append(out, t.stmt(&plain)...), true
}

// ifMapLookup: `if v, ok := M[k]; ok { A } else { B }` for a package-level map table
func (t *tctx) ifMapLookup(x *ast.IfStmt) ([]string, bool) {
	if !t.ft.strMode {
		return nil, false
	}
	as, ok := x.Init.(*ast.AssignStmt)
	if !ok || as.Tok != token.DEFINE || len(as.Lhs) != 2 || len(as.Rhs) != 1 {
		return nil, false
	}
	ie, ok := as.Rhs[0].(*ast.IndexExpr)
	if !ok {
		return nil, false
	}
	name, vv, ok := t.pkgTable(ie.X)
	if !ok || vv.kind != "map" {
		return nil, false
	}
	vid, ok1 := as.Lhs[0].(*ast.Ident)
	okid, ok2 := as.Lhs[1].(*ast.Ident)
	cid, ok3 := x.Cond.(*ast.Ident)
	if !ok1 || !ok2 || !ok3 || t.info().Uses[cid] != t.info().Defs[okid] {
		return nil, false
	}
	key, ok := t.expr(ie.Index)
	if !ok || t.ft.kindOf(t.typeOf(ie.Index)).k != "string" {
		return nil, false
	}
	var look string
	var vk kind
	switch shape(vv) {
	case "List (String × String)":
		look, vk = "mlookupS", kind{k: "string"}
	case "List (String × Int)":
		look, vk = "mlookupI", kind{k: "int"}
	default:
		return nil, false
	}
	out := append([]string{}, key.pre...)
	kv := t.fresh("t")
	out = append(out, fmt.Sprintf("let %s : String := %s", kv, key.text))
	if asg := assignedIn(x, t.info()); asg[t.info().Defs[okid]] && false {
		return nil, false
	}
	for _, st := range append([]ast.Stmt{x.Body}, x.Else) {
		if st == nil {
			continue
		}
		bad := false
		ast.Inspect(st, func(n ast.Node) bool {
			if as, ok := n.(*ast.AssignStmt); ok && as.Tok != token.DEFINE {
				for _, l := range as.Lhs {
					if id, ok := l.(*ast.Ident); ok && (t.info().Uses[id] == t.info().Defs[vid] || t.info().Uses[id] == t.info().Defs[okid]) {
						bad = true
					}
				}
			}
			return true
		})
		if bad {
			return nil, false // the if-init variables are assigned in the branches: not supported
		}
	}
	okName := t.fresh("ok")
	if vid.Name != "_" {
		vName := t.fresh("v")
		t.locals[t.info().Defs[vid]] = vk
		t.alias[t.info().Defs[vid]] = vName
		out = append(out, fmt.Sprintf("let %s : %s := %s %s %s", vName, vk.lean(), look, name, kv))
	}
	t.locals[t.info().Defs[okid]] = kind{k: "bool"}
	t.alias[t.info().Defs[okid]] = okName
	out = append(out, fmt.Sprintf("let %s : Bool := mhas %s %s", okName, name, kv))
	out = append(out, "if "+okName+" then")
	out = append(out, ind(t.block(x.Body.List))...)
	if x.Else != nil {
		out = append(out, "else")
		switch e := x.Else.(type) {
		case *ast.BlockStmt:
			out = append(out, ind(t.block(e.List))...)
		default:
			out = append(out, ind(t.stmt(e))...)
		}
	}
	return out, true
}

func (t *tctx) mutCall(call *ast.CallExpr, d *fnDecl, o *fnOut) []string {
	var pre, args []string
	target := ""
	// which parameter index is mutated
	sig := d.obj.Type().(*types.Signature)
	for i, a0 := range call.Args {
		a, ok := t.expr(a0)
		if !ok {
			t.failf("unsupported argument %s", src(t.fset(), a0))
			return nil
		}
		pre = append(pre, a.pre...)
		args = append(args, a.text)
		if lid(sig.Params().At(i).Name()) == o.mutates {
			id, ok := a0.(*ast.Ident)
			if !ok {
				t.failf("mutated argument is not a variable: %s", src(t.fset(), a0))
				return nil
			}
			target = lid(id.Name)
		}
	}
	if target == "" {
		t.failf("mutating call without a variable target")
		return nil
	}
	if o.needFuel {
		t.out.needFuel = true
		args = append([]string{"fuel"}, args...)
	}
	return append(pre, fmt.Sprintf("%s ← %s %s", target, d.lean, strings.Join(args, " ")))
}

func (t *tctx) forStmt(x *ast.ForStmt) []string {
	if r, ok := t.listLoop(x); ok {
		return r
	}
	info := t.info()
	// counted loop: for i := a; i < b; i += c
	if as, ok := x.Init.(*ast.AssignStmt); ok && as.Tok == token.DEFINE && len(as.Lhs) == 1 && x.Cond != nil && x.Post != nil {
		iv, _ := as.Lhs[0].(*ast.Ident)
		cond, okc := x.Cond.(*ast.BinaryExpr)
		if iv != nil && okc && (cond.Op == token.LSS || cond.Op == token.LEQ) {
			cl, _ := cond.X.(*ast.Ident)
			io := info.Defs[iv]
			step := int64(0)
			switch p := x.Post.(type) {
			case *ast.IncDecStmt:
				if id, ok := p.X.(*ast.Ident); ok && info.Uses[id] == io && p.Tok == token.INC {
					step = 1
				}
			case *ast.AssignStmt:
				if id, ok := p.Lhs[0].(*ast.Ident); ok && info.Uses[id] == io && p.Tok == token.ADD_ASSIGN {
					if tv, ok := info.Types[p.Rhs[0]]; ok && tv.Value != nil {
						if v, ok := constant.Int64Val(tv.Value); ok && v > 0 {
							step = v
						}
					}
				}
			}
			if cl != nil && info.Uses[cl] == io && step > 0 && t.ft.kindOf(io.Type()).k == "int" {
				asg := assignedIn(x.Body, info)
				bad := asg[io]
				for o := range mentions(cond.Y, info) {
					if asg[o] {
						bad = true
					}
				}
				a, ok1 := t.expr(as.Rhs[0])
				b, ok2 := t.expr(cond.Y)
				if !bad && ok1 && ok2 && len(b.pre) == 0 {
					hi := b.text
					if cond.Op == token.LEQ {
						hi = "(" + hi + " + 1)"
					}
					k := t.fresh("k")
					var out []string
					out = append(out, a.pre...)
					lo := t.fresh("lo")
					out = append(out, fmt.Sprintf("let %s : Int := %s", lo, a.text))
					out = append(out, fmt.Sprintf("for %s in [0:((%s - %s + %d) / %d).toNat] do", k, hi, lo, step-1, step))
					t.locals[io] = kind{k: "int"}
					body := []string{fmt.Sprintf("let %s : Int := %s + %d * (%s : Int)", lid(iv.Name), lo, step, k)}
					t.loopCtr = append(t.loopCtr, lid(iv.Name))
					t.inLoop++
					t.brk = append(t.brk, "")
					body = append(body, t.block(x.Body.List)...)
					t.brk = t.brk[:len(t.brk)-1]
					t.inLoop--
					t.loopCtr = t.loopCtr[:len(t.loopCtr)-1]
					return append(out, ind(body)...)
				}
			}
		}
	}
	// for cond { } and for { } : fuel-bounded
	if x.Init == nil && x.Post == nil {
		t.out.needFuel = true
		k := t.fresh("k")
		done := t.fresh("done")
		var out []string
		out = append(out, fmt.Sprintf("let mut %s : Bool := false", done))
		out = append(out, fmt.Sprintf("for %s in [0:fuel] do", k))
		kc := "(" + k + " : Int)"
		t.loopCtr = append(t.loopCtr, kc)
		t.inLoop++
		t.brk = append(t.brk, done)
		var body []string
		if x.Cond != nil {
			c, ok := t.expr(x.Cond)
			if !ok {
				t.failf("unsupported loop condition %s", src(t.fset(), x.Cond))
				return nil
			}
			body = append(body, c.pre...)
			body = append(body, "if !"+c.text+" then", "  "+done+" := true", "  break")
		}
		body = append(body, t.block(x.Body.List)...)
		t.brk = t.brk[:len(t.brk)-1]
		t.inLoop--
		t.loopCtr = t.loopCtr[:len(t.loopCtr)-1]
		out = append(out, ind(body)...)
		// the loop was still running when the fuel ran out
		out = append(out, "if !"+done+" then", "  throw Err.fuel")
		return out
	}
	t.failf("unsupported loop shape: %s", src(t.fset(), x.Cond))
	return nil
}

// ---------------------------------------------------------------- driver

func (ft *fnTrans) translate(d *fnDecl) *fnOut {
	o := &fnOut{}
	t := &tctx{ft: ft, fd: d, out: o, locals: map[types.Object]kind{}, listElem: map[types.Object]string{}, alias: map[types.Object]string{}}
	sig := d.obj.Type().(*types.Signature)
	var params []string
	addParam := func(v *types.Var, name string) bool {
		k := ft.kindOf(v.Type())
		if k.k == "opaque" {
			o.notes = append(o.notes, "parameter "+name+" "+typeStr(v.Type())+" is outside the subset (not passed)")
			return true
		}
		t.locals[v] = k
		params = append(params, fmt.Sprintf("(%s : %s)", lid(name), k.lean()))
		o.params = append(o.params, lid(name))
		return true
	}
	if sig.Recv() != nil {
		addParam(sig.Recv(), sig.Recv().Name())
	}
	for i := 0; i < sig.Params().Len(); i++ {
		addParam(sig.Params().At(i), sig.Params().At(i).Name())
	}
	// result
	switch sig.Results().Len() {
	case 0:
	case 1:
		o.retKind = ft.kindOf(sig.Results().At(0).Type())
		if o.retKind.k == "opaque" {
			o.reason = "result type " + typeStr(sig.Results().At(0).Type()) + " outside the subset"
			return o
		}
		o.hasRet = true
		if o.retKind.k == "struct" {
			ast.Inspect(d.decl.Body, func(n ast.Node) bool {
				if r, ok := n.(*ast.ReturnStmt); ok && len(r.Results) == 1 {
					if id, ok := r.Results[0].(*ast.Ident); ok && id.Name == "nil" {
						o.optRet = true
					}
				}
				return true
			})
		}
	default:
		o.reason = "multiple results"
		return o
	}
	// mutated pointer parameter: a struct parameter with a translated field written in the body
	var mut types.Object
	ast.Inspect(d.decl.Body, func(n ast.Node) bool {
		var lhs []ast.Expr
		switch s := n.(type) {
		case *ast.AssignStmt:
			lhs = s.Lhs
		case *ast.IncDecStmt:
			lhs = []ast.Expr{s.X}
		}
		for _, l := range lhs {
			if sel, ok := l.(*ast.SelectorExpr); ok {
				if id, ok := sel.X.(*ast.Ident); ok {
					ob := d.c.info.Uses[id]
					if k, ok := t.locals[ob]; ok && k.k == "struct" {
						if isParamOf(sig, ob) {
							if _, tr := ft.structs[k.s].fkind[sel.Sel.Name]; tr {
								if mut != nil && mut != ob {
									t.failf("two mutated struct parameters")
								}
								mut = ob
							}
						}
					}
				}
			}
		}
		return true
	})
	if mut != nil {
		o.mutates = lid(mut.Name())
		t.mutParam = mut
	}
	var body []string
	asg := assignedIn(d.decl.Body, d.c.info)
	for ob := range t.locals {
		if asg[ob] || ob == mut {
			body = append(body, fmt.Sprintf("let mut %s := %s", lid(ob.Name()), lid(ob.Name())))
		}
	}
	sort.Strings(body)
	body = append(body, t.block(d.decl.Body.List)...)
	// falling off the end
	if !terminates(d.decl.Body.List) {
		if !o.hasRet {
			body = append(body, t.retLine(nil)...)
		} else {
			body = append(body, "throw Err.panic")
		}
	}
	if t.fail != "" {
		o.reason = t.fail
		return o
	}
	ret := "Unit"
	switch {
	case o.mutates != "" && o.hasRet:
		ret = "(" + o.retKind.lean() + " × " + t.locals[mut].lean() + ")"
	case o.mutates != "":
		ret = t.locals[mut].lean()
	case o.hasRet:
		ret = o.retKind.lean()
		if o.optRet {
			ret = "(Option " + ret + ")"
		}
	}
	var sb strings.Builder
	fmt.Fprintf(&sb, "/-- %s (%s) -/\ndef %s", d.key, filepath.Base(d.c.p.fset.Position(d.decl.Pos()).Filename), d.lean)
	if o.needFuel {
		sb.WriteString(" (fuel : Nat)")
	}
	for _, a := range o.atoms {
		fmt.Fprintf(&sb, " (%s : %s)", a.name, a.ty)
	}
	for _, p := range params {
		sb.WriteString(" " + p)
	}
	fmt.Fprintf(&sb, " : Except Err %s := do\n", ret)
	for _, l := range body {
		for _, ll := range strings.Split(l, "\n") {
			sb.WriteString("  " + ll + "\n")
		}
	}
	o.text = sb.String()
	o.ok = true
	return o
}

// terminates: the statement list cannot fall off its end (syntactic: return / panic / if-else of such)
func terminates(list []ast.Stmt) bool {
	if len(list) == 0 {
		return false
	}
	switch x := list[len(list)-1].(type) {
	case *ast.ReturnStmt:
		return true
	case *ast.ExprStmt:
		if c, ok := x.X.(*ast.CallExpr); ok {
			if id, ok := c.Fun.(*ast.Ident); ok && id.Name == "panic" {
				return true
			}
		}
	case *ast.BlockStmt:
		return terminates(x.List)
	case *ast.IfStmt:
		if x.Else == nil || !terminates(x.Body.List) {
			return false
		}
		switch e := x.Else.(type) {
		case *ast.BlockStmt:
			return terminates(e.List)
		case *ast.IfStmt:
			return terminates([]ast.Stmt{e})
		}
	}
	return false
}

func isParamOf(sig *types.Signature, ob types.Object) bool {
	if sig.Recv() != nil && types.Object(sig.Recv()) == ob {
		return true
	}
	for i := 0; i < sig.Params().Len(); i++ {
		if types.Object(sig.Params().At(i)) == ob {
			return true
		}
	}
	return false
}

func (ft *fnTrans) computeWrites() {
	direct := map[string]map[string]bool{}
	calls := map[string]map[string]bool{}
	for _, c := range ft.cs {
		for _, file := range c.p.files {
			for _, d := range file.Decls {
				fd, ok := d.(*ast.FuncDecl)
				if !ok || fd.Body == nil {
					continue
				}
				obj, ok := c.info.Defs[fd.Name].(*types.Func)
				if !ok {
					continue
				}
				k := obj.FullName()
				direct[k] = map[string]bool{}
				calls[k] = map[string]bool{}
				ast.Inspect(fd.Body, func(n ast.Node) bool {
					var lhs []ast.Expr
					switch s := n.(type) {
					case *ast.AssignStmt:
						lhs = s.Lhs
					case *ast.IncDecStmt:
						lhs = []ast.Expr{s.X}
					case *ast.CallExpr:
						switch f := s.Fun.(type) {
						case *ast.Ident:
							if o, ok := c.info.Uses[f].(*types.Func); ok {
								calls[k][o.FullName()] = true
							}
						case *ast.SelectorExpr:
							if sel, ok := c.info.Selections[f]; ok {
								if o, ok := sel.Obj().(*types.Func); ok {
									calls[k][o.FullName()] = true
								}
							} else if o, ok := c.info.Uses[f.Sel].(*types.Func); ok {
								calls[k][o.FullName()] = true
							}
						}
					}
					for _, l := range lhs {
						if sel, ok := l.(*ast.SelectorExpr); ok {
							if s, ok := c.info.Selections[sel]; ok && s.Kind() == types.FieldVal {
								rt := s.Recv()
								if pt, ok := rt.(*types.Pointer); ok {
									rt = pt.Elem()
								}
								direct[k][typeStr(rt)+"."+sel.Sel.Name] = true
							}
						}
					}
					return true
				})
			}
		}
	}
	ft.writes = map[string]map[string]bool{}
	for k := range direct {
		seen := map[string]bool{}
		acc := map[string]bool{}
		var walk func(string)
		walk = func(f string) {
			if seen[f] {
				return
			}
			seen[f] = true
			for w := range direct[f] {
				acc[w] = true
			}
			for g := range calls[f] {
				walk(g)
			}
		}
		walk(k)
		ft.writes[k] = acc
	}
}

func writeFn(outDir string, cs map[string]*checked, infos map[string]*pkgInfo) {
	runFn(outDir, "Fn.lean", "Gen.Fn", fnTargets, false, cs, infos)
	runFn(outDir, "FnS.lean", "Gen.FnS", fnTargetsS, true, cs, infos)
}

func runFn(outDir, file, ns string, fnTargets []string, strMode bool, cs map[string]*checked, infos map[string]*pkgInfo) {
	ft := &fnTrans{strMode: strMode, ns: ns, cs: cs, infos: infos, decls: map[string]*fnDecl{}, byObj: map[*types.Func]*fnDecl{}, out: map[string]*fnOut{}, structs: map[string]*structInfo{},
		allObj: map[*types.Func]*fnDecl{}, target: map[string]bool{}}
	// index all module functions
	for pk, c := range cs {
		for _, file := range c.p.files {
			for _, d := range file.Decls {
				fd, ok := d.(*ast.FuncDecl)
				if !ok || fd.Body == nil {
					continue
				}
				obj, ok := c.info.Defs[fd.Name].(*types.Func)
				if !ok {
					continue
				}
				key := pk + "." + funcName(fd)
				ft.decls[key] = &fnDecl{key: key, pkg: pk, decl: fd, c: c, obj: obj, lean: strings.ReplaceAll(key, ".", "_")}
				ft.allObj[obj] = ft.decls[key]
			}
		}
	}
	ft.computeWrites()
	var targets []*fnDecl
	var skipped [][2]string
	want := map[string]bool{}
	auto := strMode && len(fnTargets) == 0
	if auto {
		// string mode without an explicit list: try every function of the module, keep what is entirely inside the subset
		for k := range ft.decls {
			fnTargets = append(fnTargets, k)
		}
		sort.Strings(fnTargets)
	}
	for _, k := range fnTargets {
		d, ok := ft.decls[k]
		if !ok {
			skipped = append(skipped, [2]string{k, "no such function in the current source"})
			continue
		}
		want[k] = true
		targets = append(targets, d)
		ft.byObj[d.obj] = d
	}
	if !auto {
		for k := range want {
			ft.target[k] = true
		}
	} else {
		for _, k := range fnTargetsSKeep {
			ft.target[k] = true
		}
	}
	for _, d := range targets {
		_, o := ft.ensure(d.obj)
		if !o.ok {
			skipped = append(skipped, [2]string{d.key, o.reason})
		}
	}
	order := ft.order
	var defs strings.Builder
	for _, tx := range ft.emit {
		defs.WriteString(tx + "\n")
	}
	var sb strings.Builder
	if !strMode {
		sb.WriteString("-- GENERATED by gotrans (fntrans.go) from /repo's current source; do not edit.\nimport Gen.Tables\nset_option maxRecDepth 100000\nset_option linter.unusedVariables false\nnamespace Gen.Fn\n\n")
		sb.WriteString("/-- Go panic / out of loop fuel -/\ninductive Err where\n  | panic\n  | fuel\n  deriving Repr, DecidableEq, Inhabited\n\n")
		sb.WriteString("/-- slice index with Go's bounds panic -/\ndef idx (l : List Int) (i : Int) : Except Err Int :=\n  if i < 0 then throw Err.panic else match l[i.toNat]? with\n    | some v => pure v\n    | none => throw Err.panic\n\n")
	} else {
		sb.WriteString("-- GENERATED by gotrans (fntrans.go, string mode) from /repo's current source; do not edit.\nimport Gen.Tables\nimport Gen.Fn\nset_option maxRecDepth 100000\nset_option linter.unusedVariables false\nnamespace Gen.FnS\nopen Gen.Fn (Err idx)\n\n")
		sb.WriteString(strHeader)
	}
	for _, sn := range ft.sorder {
		si := ft.structs[sn]
		fmt.Fprintf(&sb, "/-- Go struct %s: its int / bool / nested-struct fields. Not modelled: %s -/\nstructure %s where\n", sn, strings.Join(si.opaque, "; "), sn)
		for _, f := range si.fields {
			fmt.Fprintf(&sb, "  %s\n", f)
		}
		if len(si.fields) == 0 {
			sb.WriteString("  mk ::\n")
		}
		sb.WriteString("  deriving Repr, DecidableEq, Inhabited\n\n")
	}
	sb.WriteString(defs.String())
	// listings
	sb.WriteString("/-- atoms: (function, atom parameter, Lean type, Go source text), in source order -/\ndef atoms : List (String × String × String × String) := [\n")
	var rows []string
	for _, d := range order {
		o := ft.out[d.key]
		if !o.ok {
			continue
		}
		for _, a := range o.atoms {
			rows = append(rows, fmt.Sprintf("  (%s, %s, %s, %s)", leanStr(d.key), leanStr(a.name), leanStr(a.ty), leanStr(a.text)))
		}
	}
	sb.WriteString(strings.Join(rows, ",\n") + "\n]\n\n")
	sb.WriteString("/-- statements outside the subset that were not translated: (function, `reason: Go source text`), in source order -/\ndef dropped : List (String × String) := [\n")
	rows = nil
	for _, d := range order {
		o := ft.out[d.key]
		if !o.ok {
			continue
		}
		for _, s := range o.dropped {
			rows = append(rows, fmt.Sprintf("  (%s, %s)", leanStr(d.key), leanStr(s)))
		}
	}
	sb.WriteString(strings.Join(rows, ",\n") + "\n]\n\n")
	sb.WriteString("/-- modelling notes per function -/\ndef notes : List (String × String) := [\n")
	rows = nil
	for _, d := range order {
		o := ft.out[d.key]
		if !o.ok {
			continue
		}
		seen := map[string]bool{}
		for _, s := range o.notes {
			if !seen[s] {
				seen[s] = true
				rows = append(rows, fmt.Sprintf("  (%s, %s)", leanStr(d.key), leanStr(s)))
			}
		}
	}
	sb.WriteString(strings.Join(rows, ",\n") + "\n]\n\n")
	sb.WriteString("/-- translated functions, in definition order -/\ndef translated : List String := [")
	var names []string
	for _, d := range order {
		if ft.out[d.key].ok {
			names = append(names, leanStr(d.key))
		}
	}
	sb.WriteString(strings.Join(names, ", ") + "]\n\n")
	sb.WriteString("/-- targets that could not be translated (never guessed): (function, reason) -/\ndef skipped : List (String × String) := [\n")
	rows = nil
	sort.Slice(skipped, func(i, j int) bool { return skipped[i][0] < skipped[j][0] })
	for _, s := range skipped {
		rows = append(rows, fmt.Sprintf("  (%s, %s)", leanStr(s[0]), leanStr(s[1])))
	}
	sb.WriteString(strings.Join(rows, ",\n") + "\n]\n\nend " + ns + "\n")
	if err := os.WriteFile(filepath.Join(outDir, file), []byte(sb.String()), 0o644); err != nil {
		fmt.Fprintln(os.Stderr, err)
		os.Exit(1)
	}
}
