// gotrans — translator from /repo's Go source to Lean (lean/Gen/Tables.lean, lean/Gen/Facts.lean).
//
// Tables.lean: every package-level data literal ([]string, []int, []float64-as-text, map[string]T,
// string and int constants), evaluated from the AST with identifier resolution inside the package,
// plus the integer literals of every function body in source order (so that constants the model
// shares with the code are regenerated, not copied).
// Facts.lean: syntactic facts about the source (type assertions vs pushed element types, writes to
// package variables / struct fields, the shape of NewLunarYear, struct-literal construction sites).
//
// Standard library only (go/ast, go/parser, go/token, go/types, go/importer-free: we type-check with a
// source importer restricted to the module).
package main

import (
	"flag"
	"fmt"
	"go/ast"
	"go/parser"
	"go/token"
	"os"
	"path/filepath"
	"sort"
	"strconv"
	"strings"
)

var pkgs = []string{"SolarUtil", "LunarUtil", "HolidayUtil", "TaoUtil", "FotoUtil", "calendar"}

type pkgInfo struct {
	name  string
	files map[string]*ast.File
	fset  *token.FileSet
	decls map[string]ast.Expr // package-level name -> initializer expression
	types map[string]ast.Expr // package-level name -> declared type (may be nil)
	order []string
}

func leanStr(s string) string {
	var sb strings.Builder
	sb.WriteByte('"')
	for _, r := range s {
		switch r {
		case '"':
			sb.WriteString("\\\"")
		case '\\':
			sb.WriteString("\\\\")
		case '\n':
			sb.WriteString("\\n")
		case '\t':
			sb.WriteString("\\t")
		case '\r':
			sb.WriteString("\\r")
		default:
			sb.WriteRune(r)
		}
	}
	sb.WriteByte('"')
	return sb.String()
}

// value model
type val struct {
	kind string // "str","int","float","list","map","bool"
	s    string
	i    int64
	list []val
	keys []val
	vals []val
}

func (p *pkgInfo) eval(e ast.Expr, depth int) (val, bool) {
	if depth > 20 {
		return val{}, false
	}
	switch x := e.(type) {
	case *ast.BasicLit:
		switch x.Kind {
		case token.STRING:
			s, err := strconv.Unquote(x.Value)
			if err != nil {
				return val{}, false
			}
			return val{kind: "str", s: s}, true
		case token.INT:
			i, err := strconv.ParseInt(x.Value, 0, 64)
			if err != nil {
				return val{}, false
			}
			return val{kind: "int", i: i}, true
		case token.FLOAT:
			return val{kind: "float", s: x.Value}, true
		case token.CHAR:
			s, err := strconv.Unquote(x.Value)
			if err != nil {
				return val{}, false
			}
			return val{kind: "int", i: int64([]rune(s)[0])}, true
		}
	case *ast.Ident:
		if x.Name == "true" || x.Name == "false" {
			return val{kind: "bool", s: x.Name}, true
		}
		if d, ok := p.decls[x.Name]; ok && d != nil {
			return p.eval(d, depth+1)
		}
	case *ast.UnaryExpr:
		if x.Op == token.SUB {
			v, ok := p.eval(x.X, depth+1)
			if ok && v.kind == "int" {
				v.i = -v.i
				return v, true
			}
			if ok && v.kind == "float" {
				v.s = "-" + v.s
				return v, true
			}
		}
	case *ast.BinaryExpr:
		a, ok1 := p.eval(x.X, depth+1)
		b, ok2 := p.eval(x.Y, depth+1)
		if ok1 && ok2 && a.kind == "str" && b.kind == "str" && x.Op == token.ADD {
			return val{kind: "str", s: a.s + b.s}, true
		}
		if ok1 && ok2 && a.kind == "int" && b.kind == "int" {
			switch x.Op {
			case token.ADD:
				return val{kind: "int", i: a.i + b.i}, true
			case token.SUB:
				return val{kind: "int", i: a.i - b.i}, true
			case token.MUL:
				return val{kind: "int", i: a.i * b.i}, true
			}
		}
	case *ast.ParenExpr:
		return p.eval(x.X, depth+1)
	case *ast.CompositeLit:
		isMap := false
		if _, ok := x.Type.(*ast.MapType); ok {
			isMap = true
		}
		if x.Type == nil && len(x.Elts) > 0 {
			if _, ok := x.Elts[0].(*ast.KeyValueExpr); ok {
				isMap = true
			}
		}
		if isMap {
			v := val{kind: "map"}
			for _, el := range x.Elts {
				kv, ok := el.(*ast.KeyValueExpr)
				if !ok {
					return val{}, false
				}
				k, ok1 := p.eval(kv.Key, depth+1)
				w, ok2 := p.eval(kv.Value, depth+1)
				if !ok1 || !ok2 {
					return val{}, false
				}
				v.keys = append(v.keys, k)
				v.vals = append(v.vals, w)
			}
			return v, true
		}
		v := val{kind: "list"}
		for _, el := range x.Elts {
			w, ok := p.eval(el, depth+1)
			if !ok {
				return val{}, false
			}
			v.list = append(v.list, w)
		}
		return v, true
	}
	return val{}, false
}

// leanType/leanVal: render with a uniform shape; returns ok=false for heterogeneous values
func shape(v val) string {
	switch v.kind {
	case "str":
		return "String"
	case "int":
		return "Int"
	case "float":
		return "String"
	case "bool":
		return "Bool"
	case "list":
		if len(v.list) == 0 {
			return "List String"
		}
		return "List (" + shape(v.list[0]) + ")"
	case "map":
		if len(v.keys) == 0 {
			return "List (String × String)"
		}
		return "List (" + shape(v.keys[0]) + " × " + shape(v.vals[0]) + ")"
	}
	return "?"
}

func uniform(v val, sh string) bool {
	switch v.kind {
	case "list":
		for _, w := range v.list {
			if "List ("+shape(w)+")" != sh || !uniform(w, shape(w)) {
				return false
			}
		}
	case "map":
		for i := range v.keys {
			if "List ("+shape(v.keys[i])+" × "+shape(v.vals[i])+")" != sh || !uniform(v.vals[i], shape(v.vals[i])) {
				return false
			}
		}
	}
	return true
}

func render(v val) string {
	switch v.kind {
	case "str":
		return leanStr(v.s)
	case "float":
		return leanStr(v.s)
	case "bool":
		return v.s
	case "int":
		if v.i < 0 {
			return fmt.Sprintf("(%d)", v.i)
		}
		return fmt.Sprintf("%d", v.i)
	case "list":
		var parts []string
		for _, w := range v.list {
			parts = append(parts, render(w))
		}
		return "[" + strings.Join(parts, ", ") + "]"
	case "map":
		var parts []string
		for i := range v.keys {
			parts = append(parts, "("+render(v.keys[i])+", "+render(v.vals[i])+")")
		}
		return "[" + strings.Join(parts, ",\n  ") + "]"
	}
	return "?"
}

func loadPkg(repo, name string) *pkgInfo {
	p := &pkgInfo{name: name, fset: token.NewFileSet(), decls: map[string]ast.Expr{}, types: map[string]ast.Expr{}, files: map[string]*ast.File{}}
	matches, _ := filepath.Glob(filepath.Join(repo, name, "*.go"))
	sort.Strings(matches)
	for _, f := range matches {
		base := filepath.Base(f)
		if strings.HasSuffix(base, "_test.go") || strings.HasPrefix(base, "verif_") {
			continue
		}
		af, err := parser.ParseFile(p.fset, f, nil, parser.ParseComments)
		if err != nil {
			fmt.Fprintln(os.Stderr, "parse error:", err)
			os.Exit(1)
		}
		p.files[base] = af
		for _, d := range af.Decls {
			gd, ok := d.(*ast.GenDecl)
			if !ok || (gd.Tok != token.VAR && gd.Tok != token.CONST) {
				continue
			}
			for _, sp := range gd.Specs {
				vs := sp.(*ast.ValueSpec)
				for i, n := range vs.Names {
					var init ast.Expr
					if i < len(vs.Values) {
						init = vs.Values[i]
					}
					p.decls[n.Name] = init
					p.types[n.Name] = vs.Type
					p.order = append(p.order, n.Name)
				}
			}
		}
	}
	return p
}

func leanIdent(s string) string {
	// Lean identifiers: keep as is but guard a few keywords / lowercase one-letter names
	return "«" + s + "»"
}

func funcName(fd *ast.FuncDecl) string {
	if fd.Recv != nil && len(fd.Recv.List) > 0 {
		t := fd.Recv.List[0].Type
		if st, ok := t.(*ast.StarExpr); ok {
			t = st.X
		}
		if id, ok := t.(*ast.Ident); ok {
			return id.Name + "." + fd.Name.Name
		}
	}
	return fd.Name.Name
}

func main() {
	repo := flag.String("repo", "/repo", "repository root")
	outDir := flag.String("out", "", "output directory (Gen root)")
	flag.Parse()
	if *outDir == "" {
		fmt.Fprintln(os.Stderr, "gotrans needs -out")
		os.Exit(2)
	}
	var sb strings.Builder
	sb.WriteString("-- GENERATED by gotrans from /repo's current source; do not edit.\nset_option maxRecDepth 100000\nnamespace Gen.Tables\n\n")
	var skipped []string
	infos := map[string]*pkgInfo{}
	for _, name := range pkgs {
		p := loadPkg(*repo, name)
		infos[name] = p
		fmt.Fprintf(&sb, "namespace %s\n\n", name)
		for _, n := range p.order {
			init := p.decls[n]
			if init == nil {
				skipped = append(skipped, name+"."+n+" (no initializer)")
				continue
			}
			v, ok := p.eval(init, 0)
			if !ok {
				skipped = append(skipped, name+"."+n+" (not a data literal)")
				continue
			}
			sh := shape(v)
			if !uniform(v, sh) {
				skipped = append(skipped, name+"."+n+" (heterogeneous)")
				continue
			}
			fmt.Fprintf(&sb, "def %s : %s :=\n  %s\n\n", leanIdent(n), sh, render(v))
			// maps keyed by canonical "a-b-c" integer strings: also emit the keys as integer lists
			if v.kind == "map" && len(v.keys) > 0 {
				allInt := true
				var rows []string
				for _, k := range v.keys {
					if k.kind != "str" {
						allInt = false
						break
					}
					parts := strings.Split(k.s, "-")
					var nums []string
					for _, pt := range parts {
						i, err := strconv.ParseInt(pt, 10, 64)
						if err != nil || fmt.Sprint(i) != pt {
							allInt = false
							break
						}
						nums = append(nums, pt)
					}
					if !allInt {
						break
					}
					rows = append(rows, "["+strings.Join(nums, ", ")+"]")
				}
				if allInt {
					fmt.Fprintf(&sb, "/-- keys of %s parsed as integers (emitted only when every key re-renders canonically) -/\ndef %s : List (List Int) :=\n  [%s]\n\n", n, leanIdent(n+"_ikeys"), strings.Join(rows, ", "))
				}
			}
			// short string lists: also emit code points (String functions do not reduce in the kernel)
			if v.kind == "list" && len(v.list) > 0 && len(v.list) <= 70 && v.list[0].kind == "str" {
				ok := true
				var rows []string
				for _, w := range v.list {
					if w.kind != "str" || len([]rune(w.s)) > 6 {
						ok = false
						break
					}
					var cps []string
					for _, r := range w.s {
						cps = append(cps, fmt.Sprint(int(r)))
					}
					rows = append(rows, "["+strings.Join(cps, ", ")+"]")
				}
				if ok {
					fmt.Fprintf(&sb, "def %s : List (List Nat) :=\n  [%s]\n\n", leanIdent(n+"_cp"), strings.Join(rows, ", "))
				}
			}
		}
		// integer literals of each function, in source order
		var fnames []string
		lits := map[string][]string{}
		var bases []string
		for b := range p.files {
			bases = append(bases, b)
		}
		sort.Strings(bases)
		for _, b := range bases {
			for _, d := range p.files[b].Decls {
				fd, ok := d.(*ast.FuncDecl)
				if !ok || fd.Body == nil {
					continue
				}
				fn := funcName(fd)
				var ls []string
				ast.Inspect(fd.Body, func(n ast.Node) bool {
					if bl, ok := n.(*ast.BasicLit); ok && bl.Kind == token.INT {
						if i, err := strconv.ParseInt(bl.Value, 0, 64); err == nil {
							ls = append(ls, fmt.Sprint(i))
						}
					}
					return true
				})
				fnames = append(fnames, fn)
				lits[fn] = ls
			}
		}
		sort.Strings(fnames)
		fmt.Fprintf(&sb, "/-- integer literals of each function body, in source order -/\ndef intLits : List (String × List Int) := [\n")
		for i, fn := range fnames {
			sep := ","
			if i == len(fnames)-1 {
				sep = ""
			}
			fmt.Fprintf(&sb, "  (%s, [%s])%s\n", leanStr(fn), strings.Join(lits[fn], ", "), sep)
		}
		fmt.Fprintf(&sb, "]\n\nend %s\n\n", name)
	}
	sb.WriteString("/-- package-level declarations gotrans could not evaluate as data (listed, never guessed) -/\ndef skipped : List String := [\n")
	for i, s := range skipped {
		sep := ","
		if i == len(skipped)-1 {
			sep = ""
		}
		fmt.Fprintf(&sb, "  %s%s\n", leanStr(s), sep)
	}
	sb.WriteString("]\n\nend Gen.Tables\n")
	os.MkdirAll(*outDir, 0o755)
	if err := os.WriteFile(filepath.Join(*outDir, "Tables.lean"), []byte(sb.String()), 0o644); err != nil {
		fmt.Fprintln(os.Stderr, err)
		os.Exit(1)
	}
	writeFacts(*repo, *outDir, infos)
}
