module verif/gotrans

go 1.21
