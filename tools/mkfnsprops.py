#!/usr/bin/env python3
"""mkfnsprops.py — write lean/Props/FnSCxx.lean: per property, the index of the string-mode equivalence theorems
(`FnSEq.*` in lean/Proofs/FnS*.lean: generated accessor = model function of its defining inputs). Run after adding theorems."""
import re, os
ROOT = os.path.dirname(os.path.dirname(os.path.abspath(__file__)))
HELP = ("s1_", "s2_", "s3_", "s4_", "s5_", "s6_", "s7_", "sb_", "sd_", "sf_", "sr_", "sc_", "s8_")
def thms(mod):
    src = open(os.path.join(ROOT, "lean/Proofs", mod + ".lean"), encoding="utf-8").read()
    names = re.findall(r"^(?:@\[simp\] )?theorem ([A-Za-z0-9_']+)", src, re.M)
    return [n for n in names if not n.startswith(HELP)]
PROPS = {
 "C03": ("day terms: the regenerated `Lunar.GetJie` / `GetQi` (atom: the term-table entry of index i) scan the even / odd entries of JIE_QI_IN_USE in order, stop at the first one on the civil day of the date and convert the Latin duplicate names — equal to the model's `Lunar.jie` / `Lunar.qi`; parity (a Jie getter can only name an even entry, a Qi getter an odd one) and totality hold for ANY atom", ["FnSJieQi"]),
 "C08": ("accessors: every translated accessor returns `.ok` of the model's value under the index ranges of a library-built object, and panics exactly outside the stated guards", ["FnSBase", "FnS1", "FnS2", "FnS3", "FnSYearObj", "FnSTaoFoto", "FnSDecoders", "FnSNineStarObj", "FnSHex"]),
 "C11": ("two routes, one value: the `Lunar.GetTimeX` accessors and the hour object's (`LunarTime`) accessors, the eight-character object and the `Lunar` pillars are each tied to the SAME model function of the same indices; the two routes to the hour's suitable / avoid lists are the same decoder call; `FnSRoutes`: the agreement stated DIRECTLY between the two generated functions, guard-free (hour object vs lunar date, eight-character object vs lunar date, deprecated aliases)", ["FnSBase", "FnS1", "FnS2", "FnS3", "FnSDecoders", "FnSRoutes"]),
 "C18": ("attributes are functions of their defining inputs: each translated accessor equals a model function applied to the index fields named in its statement only", ["FnSBase", "FnS1", "FnS2", "FnS3", "FnSYearObj", "FnSDecoders", "FnSCongr"]),
 "C17": ("Taoist / Buddhist predicates and renderings of the regenerated code equal the model", ["FnSTaoFoto", "FnSRender", "FnSTaoDay"]),
 "C12": ("fortune pillars: the regenerated `DaYun / XiaoYun / LiuNian / LiuYue .GetGanZhi` (and Xun / XunKong) equal the model's 60-cycle arithmetic from the month / hour / Lichun-year pillar, on every input (result, panic or out of fuel)", ["FnSFortune"]),
 "C13": ("festivals and seasonal names: the regenerated `Lunar.GetFestivals` reports New Year's Eve exactly under the coded rule (and nothing in the table is called 除夕); `GetHou` / `GetWuHou` equal the model", ["FnSLunarFest", "FnSHou"]),
 "C19": ("formatting: `%0wd`, `ToYmd`, `ToYmdHms` and the Chinese renderings of the regenerated code equal the model's renderings", ["FnSFmt", "FnSRender"]),
 "C16": ("nine-star object: every naming system (number, colour, element, position, Xuan Kong, Bei Dou, Qi Men, Tai Yi) reads its nine-entry table at the SAME index, is total on 0..8 and panics outside; the year star (three conventions) and the month star of the regenerated code — no atoms in string mode — equal the model", ["FnSNineStarObj", "FnSStars"]),
 "C05": ("hour branch: the regenerated `LunarUtil.GetTimeZhiIndex` on the \"%02d:%02d\" key equals the model's scan, and the string-mode `computeTime` equals the model's time pillar (this discharges the atom of the int-mode `computeTime`)", ["FnSTimeZhi"]),
 "C20": ("zodiac sign and civil festivals: the regenerated `GetXingZuo` equals the model's for all month / day integers; the regenerated `Solar.GetFestivals` is the model's fixed-date + k-th weekday + last-weekday list", ["FnSXingZuo", "FnSSolarFest"]),
}
PINS = {
 "C03": ["calendar.Lunar.GetJie", "calendar.Lunar.GetQi"],
 "C12": ["calendar.LiuNian.GetGanZhi", "calendar.LiuYue.GetGanZhi"],
 "C13": ["calendar.Lunar.GetFestivals", "calendar.Lunar.GetHou", "calendar.Lunar.GetWuHou"],
 "C20": ["calendar.Solar.GetFestivals"],
 "C17": ["calendar.Tao.IsDaySanHui", "calendar.Tao.IsDaySanYuan", "calendar.Tao.IsDayWuLa", "calendar.Tao.IsDayBaJie"],
}
gsrc = open(os.path.join(ROOT, "lean/Gen/FnS.lean"), encoding="utf-8").read()
STR = r'"((?:[^"\\]|\\.)*)"'
def block(name):
    m = re.search(r"^def %s : [^\n]*:= \[\n(.*?)\n\]\n" % name, gsrc, re.S | re.M)
    return m.group(1) if m else ""
def rows(name, n):
    out = []
    for line in block(name).split("\n"):
        line = line.strip().rstrip(",")
        if not line:
            continue
        m = re.match(r"^\(" + ", ".join([STR] * n) + r"\)$", line)
        if not m:
            raise SystemExit("cannot parse %s row: %s" % (name, line))
        out.append(m.groups())
    return out
ATOMS, DROPPED, NOTES = rows("atoms", 4), rows("dropped", 2), rows("notes", 2)
def q(x): return '"' + x + '"'
def pin_text(fn):
    a = [x[1:] for x in ATOMS if x[0] == fn]; d = [x[1] for x in DROPPED if x[0] == fn]; n = [x[1] for x in NOTES if x[0] == fn]
    al = ",\n     ".join("(%s, %s, %s)" % (q(x[0]), q(x[1]), q(x[2])) for x in a)
    return "theorem pin_%s : (Gen.FnS.translated.contains %s && listing %s ==\n    (([%s] : List (String × String × String)),\n     ([%s] : List String),\n     ([%s] : List String))) = true := by decide +kernel\n" % (
        re.sub(r"[^A-Za-z0-9]", "_", fn), q(fn), q(fn), al, ",\n     ".join(q(x) for x in d), ",\n     ".join(q(x) for x in n))
LISTING = """set_option maxRecDepth 100000
def listing (fn : String) : List (String × String × String) × List String × List String :=
  ((Gen.FnS.atoms.filter (fun a => a.1 == fn)).map (fun a => a.2),
   (Gen.FnS.dropped.filter (fun a => a.1 == fn)).map (fun a => a.2),
   (Gen.FnS.notes.filter (fun a => a.1 == fn)).map (fun a => a.2))
"""
for pid, (title, mods) in sorted(PROPS.items()):
    names = []
    for m in mods:
        names += ["FnSEq." + n for n in thms(m)]
    seen = set(); names = [n for n in names if not (n in seen or seen.add(n))]
    body = ",\n  ".join("``" + n for n in names)
    pins = ""
    if pid in PINS:
        pins = LISTING + "\n" + "\n".join(pin_text(fn) for fn in PINS[pid])
    txt = f"""/-
{pid} (regenerated function bodies, string mode) — {title}.
`Gen/FnS.lean` is regenerated from /repo's source on every run by gotrans/fntrans.go in string mode (every function of the module that
lies entirely inside the subset: no atoms, nothing dropped); the theorems indexed here are re-checked against it. A function that an
edit pushes out of the subset disappears from `Gen/FnS.lean` and its theorem no longer elaborates.
-/
{chr(10).join('import Proofs.' + m for m in mods)}
namespace Props.FnS{pid}

{pins}
def obligations : List Lean.Name := [
  {body} ]

end Props.FnS{pid}
"""
    open(os.path.join(ROOT, "lean/Props", f"FnS{pid}.lean"), "w", encoding="utf-8").write(txt)
    print(pid, len(names))
