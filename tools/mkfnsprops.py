#!/usr/bin/env python3
"""mkfnsprops.py — write lean/Props/FnSCxx.lean: per property, the index of the string-mode equivalence theorems
(`FnSEq.*` in lean/Proofs/FnS*.lean: generated accessor = model function of its defining inputs). Run after adding theorems."""
import re, os
ROOT = os.path.dirname(os.path.dirname(os.path.abspath(__file__)))
HELP = ("s1_", "s2_", "s3_", "s4_", "sb_", "sd_")
def thms(mod):
    src = open(os.path.join(ROOT, "lean/Proofs", mod + ".lean"), encoding="utf-8").read()
    names = re.findall(r"^(?:@\[simp\] )?theorem ([A-Za-z0-9_']+)", src, re.M)
    return [n for n in names if not n.startswith(HELP)]
PROPS = {
 "C08": ("accessors: every translated accessor returns `.ok` of the model's value under the index ranges of a library-built object, and panics exactly outside the stated guards", ["FnSBase", "FnS1", "FnS2", "FnS3", "FnSYearObj", "FnSTaoFoto", "FnSDecoders"]),
 "C11": ("two routes, one value: the `Lunar.GetTimeX` accessors and the hour object's (`LunarTime`) accessors, the eight-character object and the `Lunar` pillars are each tied to the SAME model function of the same indices; the two routes to the hour's suitable / avoid lists are the same decoder call", ["FnSBase", "FnS1", "FnS2", "FnS3", "FnSDecoders"]),
 "C18": ("attributes are functions of their defining inputs: each translated accessor equals a model function applied to the index fields named in its statement only", ["FnSBase", "FnS1", "FnS2", "FnS3", "FnSYearObj", "FnSDecoders"]),
 "C17": ("Taoist / Buddhist predicates and renderings of the regenerated code equal the model", ["FnSTaoFoto", "FnSRender"]),
 "C19": ("formatting: `%0wd`, `ToYmd`, `ToYmdHms` and the Chinese renderings of the regenerated code equal the model's renderings", ["FnSFmt", "FnSRender"]),
 "C20": ("zodiac sign: the regenerated `GetXingZuo` equals the model's for all month / day integers", ["FnSXingZuo"]),
}
for pid, (title, mods) in sorted(PROPS.items()):
    names = []
    for m in mods:
        names += ["FnSEq." + n for n in thms(m)]
    seen = set(); names = [n for n in names if not (n in seen or seen.add(n))]
    body = ",\n  ".join("``" + n for n in names)
    txt = f"""/-
{pid} (regenerated function bodies, string mode) — {title}.
`Gen/FnS.lean` is regenerated from /repo's source on every run by gotrans/fntrans.go in string mode (every function of the module that
lies entirely inside the subset: no atoms, nothing dropped); the theorems indexed here are re-checked against it. A function that an
edit pushes out of the subset disappears from `Gen/FnS.lean` and its theorem no longer elaborates.
-/
{chr(10).join('import Proofs.' + m for m in mods)}
namespace Props.FnS{pid}

def obligations : List Lean.Name := [
  {body} ]

end Props.FnS{pid}
"""
    open(os.path.join(ROOT, "lean/Props", f"FnS{pid}.lean"), "w", encoding="utf-8").write(txt)
    print(pid, len(names))
